verus! {
pub open spec fn cfg(s: StoreView) -> Config { s.config->Some_0 }
pub open spec fn st(s: StoreView) -> State { s.state->Some_0 }
pub open spec fn now_s(env: Env) -> u64 { env.block.time.secs() }
pub open spec fn env_ok(env: Env) -> bool { env.block.time.0 < 0x8000_0000_0000_0000 }
pub open spec fn SEVEN_DAYS() -> nat { 604800 }
pub open spec fn IBC_TIMEOUT_NANOS() -> nat { 1_000_000_000_000 }
pub open spec fn memo_of(contract: Seq<char>) -> Seq<char> {
    "{\"ibc_callback\":\""@ + (contract + "\"}"@)
}
/// route identity: same hops, order, pools and denoms
pub open spec fn same_route(a: Seq<SwapRoute>, b: Seq<SwapRoute>) -> bool {
    a.len() == b.len() && forall|i: int| 0 <= i < a.len() ==>
        (#[trigger] a[i]).pool_id == b[i].pool_id && a[i].token_in_denom@ == b[i].token_in_denom@ && a[i].token_out_denom@ == b[i].token_out_denom@
}
pub open spec fn route_allowed(c: Config, route: Seq<SwapRoute>) -> bool {
    route.len() > 0 && exists|k: int| 0 <= k < c.allowed_swap_routes@.len() && same_route((#[trigger] c.allowed_swap_routes@[k])@, route)
}
} // verus!
verus! {
pub use crate::osmosis_std::types::osmosis::poolmanager::v1beta1::{SwapAmountInRoute, SwapAmountOutRoute};
pub open spec fn is_swap_in(m: CosmosMsg, sender: Seq<char>, routes: Seq<SwapRoute>, denom: Seq<char>, amount: nat, limit: nat) -> bool {
    &&& m is SwapIn
    &&& m->SwapIn_0.token_out_min_amount@ == dec(limit)
    &&& m->SwapIn_0.sender@ == sender
    &&& m->SwapIn_0.routes@.len() == routes.len()
    &&& forall|i: int| 0 <= i < routes.len() ==> (#[trigger] m->SwapIn_0.routes@[i]).pool_id == routes[i].pool_id
            && m->SwapIn_0.routes@[i].token_out_denom@ == routes[i].token_out_denom@
    &&& m->SwapIn_0.token_in is Some
    &&& m->SwapIn_0.token_in->Some_0.denom@ == denom
    &&& m->SwapIn_0.token_in->Some_0.amount@ == dec(amount)
}
pub open spec fn is_swap_out(m: CosmosMsg, sender: Seq<char>, routes: Seq<SwapRoute>, denom: Seq<char>, amount: nat, limit: nat) -> bool {
    &&& m is SwapOut
    &&& m->SwapOut_0.token_in_max_amount@ == dec(limit)
    &&& m->SwapOut_0.sender@ == sender
    &&& m->SwapOut_0.routes@.len() == routes.len()
    &&& forall|i: int| 0 <= i < routes.len() ==> (#[trigger] m->SwapOut_0.routes@[i]).pool_id == routes[i].pool_id
            && m->SwapOut_0.routes@[i].token_in_denom@ == routes[i].token_in_denom@
    &&& m->SwapOut_0.token_out is Some
    &&& m->SwapOut_0.token_out->Some_0.denom@ == denom
    &&& m->SwapOut_0.token_out->Some_0.amount@ == dec(amount)
}
pub open spec fn is_plain(m: SubMsg) -> bool { m.id == 0 && m.gas_limit is None && m.reply_on == ReplyOn::Never }
pub open spec fn is_bank_send(m: CosmosMsg, to: Seq<char>, denom: Seq<char>, amount: nat) -> bool {
    &&& m is Bank
    &&& match m->Bank_0 {
            BankMsg::Send { to_address, amount: coins } => {
                &&& to_address@ == to
                &&& coins@.len() == 1
                &&& coins@[0].denom@ == denom
                &&& coins@[0].amount.0 == amount
            },
            _ => false,
        }
}
pub open spec fn is_spend_transfer(m: CosmosMsg, env: Env, channel: Seq<char>, receiver: Seq<char>, denom: Seq<char>, amount: nat) -> bool {
    &&& m is OsmoTransfer
    &&& ({ let t = m->OsmoTransfer_0;
        &&& t.source_channel@ == channel
        &&& t.source_port@ == "transfer"@
        &&& t.token is Some && t.token->Some_0.denom@ == denom && t.token->Some_0.amount@ == dec(amount)
        &&& t.receiver@ == receiver
        &&& t.sender@ == env.contract.address.0@
        &&& t.timeout_height is None
        &&& t.timeout_timestamp == env.block.time.0 + IBC_TIMEOUT_NANOS()
        &&& t.memo@ == memo_of(env.contract.address.0@) })
}
} // verus!
