pub use crate::state::{Config, State, SwapRoute};
pub use crate::error::ContractError;
use crate::cw2::ContractVersion;
verus! {
/// Abstract contents of the treasury contract's storage.
pub struct StoreView {
    pub config: Option<Config>,
    pub state: Option<State>,
    pub admin: Option<Option<Addr>>,
    pub version: Option<ContractVersion>,
}
impl crate::serde::Serialize for Config {
    open spec fn item_get(s: StoreView) -> Option<Self> { s.config }
    open spec fn item_put(s: StoreView, v: Option<Self>) -> StoreView { StoreView { config: v, ..s } }
}
impl crate::serde::Serialize for State {
    open spec fn item_get(s: StoreView) -> Option<Self> { s.state }
    open spec fn item_put(s: StoreView, v: Option<Self>) -> StoreView { StoreView { state: v, ..s } }
}
} // verus!
