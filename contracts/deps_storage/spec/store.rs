verus! {
/// The store is abstract here: the verified functions are generic in the stored type, whose
/// `Serialize` spec functions say which component they read and write.
pub struct StoreView { pub slots: int }
} // verus!
