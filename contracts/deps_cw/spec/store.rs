use crate::cw2::ContractVersion;
verus! {
/// The two storage slots the verified dependency functions touch (same component names as in the
/// contract worlds' abstract stores, so that the assumed contract text is the verified text).
pub struct StoreView {
    pub admin: Option<Option<Addr>>,
    pub version: Option<ContractVersion>,
}
impl crate::serde::Serialize for Option<Addr> {
    open spec fn item_get(s: StoreView) -> Option<Self> { s.admin }
    open spec fn item_put(s: StoreView, v: Option<Self>) -> StoreView { StoreView { admin: v, ..s } }
}
impl crate::serde::Serialize for ContractVersion {
    open spec fn item_get(s: StoreView) -> Option<Self> { s.version }
    open spec fn item_put(s: StoreView, v: Option<Self>) -> StoreView { StoreView { version: v, ..s } }
}
} // verus!
