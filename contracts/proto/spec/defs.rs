verus! {
} // verus!
