pub use crate::state::{Config, State, UnstakeRequest, IbcWaitingForReply, NativeChainConfig, ProtocolChainConfig, ProtocolFeeConfig};
pub use crate::state::ibc::{IBCTransfer, PacketLifecycleStatus};
pub use crate::milky_way::staking::{Batch, BatchStatus};
pub use crate::error::ContractError;
pub use crate::migrations::states::{v0_4_18, v0_4_20, v1_0_0};
use crate::cw2::ContractVersion;
verus! {

/// Abstract storage as the migrations see it.  Items / maps of different layouts that share a
/// storage key ("config", "inflight", "ibc_waiting_for_reply") are separate components; writing
/// one layout at a key removes what the other layouts held at that key.
pub struct StoreView {
    pub version: Option<ContractVersion>,
    pub config: Option<Config>,
    pub config_v18: Option<v0_4_18::Config>,
    pub config_v20: Option<v0_4_20::Config>,
    pub inflight: SMap<u64, IBCTransfer>,
    pub inflight_v1: SMap<u64, v1_0_0::IBCTransfer>,
    pub waiting: SMap<u64, IbcWaitingForReply>,
    pub waiting_v1: SMap<u64, v1_0_0::IbcWaitingForReply>,
    // the rest of the store (never touched by a migration)
    pub state: Option<State>,
    pub admin: Option<Option<Addr>>,
    pub pending_batch_id: Option<u64>,
    pub batches: SMap<u64, Batch>,
    pub requests: SMap<(u64, String), UnstakeRequest>,
}

impl crate::serde::Serialize for Config {
    open spec fn item_get(s: StoreView) -> Option<Self> { s.config }
    open spec fn item_put(s: StoreView, v: Option<Self>) -> StoreView { StoreView { config: v, config_v18: None, config_v20: None, ..s } }
}
impl crate::serde::Serialize for v0_4_18::Config {
    open spec fn item_get(s: StoreView) -> Option<Self> { s.config_v18 }
    open spec fn item_put(s: StoreView, v: Option<Self>) -> StoreView { StoreView { config_v18: v, config: None, config_v20: None, ..s } }
}
impl crate::serde::Serialize for v0_4_20::Config {
    open spec fn item_get(s: StoreView) -> Option<Self> { s.config_v20 }
    open spec fn item_put(s: StoreView, v: Option<Self>) -> StoreView { StoreView { config_v20: v, config: None, config_v18: None, ..s } }
}
impl crate::serde::Serialize for IBCTransfer {
    open spec fn map_get(s: StoreView) -> SMap<u64, Self> { s.inflight }
    open spec fn map_put(s: StoreView, m: SMap<u64, Self>) -> StoreView {
        StoreView { inflight: m, inflight_v1: s.inflight_v1.remove_keys(m.dom()), ..s }
    }
}
impl crate::serde::Serialize for v1_0_0::IBCTransfer {
    open spec fn map_get(s: StoreView) -> SMap<u64, Self> { s.inflight_v1 }
    open spec fn map_put(s: StoreView, m: SMap<u64, Self>) -> StoreView {
        StoreView { inflight_v1: m, inflight: s.inflight.remove_keys(m.dom()), ..s }
    }
}
impl crate::serde::Serialize for IbcWaitingForReply {
    open spec fn map_get(s: StoreView) -> SMap<u64, Self> { s.waiting }
    open spec fn map_put(s: StoreView, m: SMap<u64, Self>) -> StoreView {
        StoreView { waiting: m, waiting_v1: s.waiting_v1.remove_keys(m.dom()), ..s }
    }
}
impl crate::serde::Serialize for v1_0_0::IbcWaitingForReply {
    open spec fn map_get(s: StoreView) -> SMap<u64, Self> { s.waiting_v1 }
    open spec fn map_put(s: StoreView, m: SMap<u64, Self>) -> StoreView {
        StoreView { waiting_v1: m, waiting: s.waiting.remove_keys(m.dom()), ..s }
    }
}
impl crate::serde::Serialize for State {}
impl crate::serde::Serialize for u64 {}
impl crate::serde::Serialize for Batch {}
impl crate::serde::Serialize for UnstakeRequest {}
} // verus!
