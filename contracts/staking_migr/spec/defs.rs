verus! {
pub open spec fn cfg(s: StoreView) -> Config { s.config->Some_0 }
pub open spec fn version_is(s: StoreView, name: Seq<char>, ver: Seq<char>) -> bool {
    s.version is Some && s.version->Some_0.contract@ == name && s.version->Some_0.version@ == ver
}
pub open spec fn valid_prefix(p: Seq<char>) -> bool {
    &&& 1 <= p.len() <= 83
    &&& forall|i: int| 0 <= i < p.len() ==> 33 <= (#[trigger] p[i]) as u32 <= 126 && !(65 <= p[i] as u32 <= 90)
}
/// what `validate_address_prefix` accepts, over the UTF-8 bytes: 1..=83 bytes, all printable ASCII, not mixed case
pub open spec fn prefix_acceptable(p: Seq<char>) -> bool {
    let b = str_bytes(p);
    &&& 1 <= b.len() <= 83
    &&& forall|i: int| 0 <= i < b.len() ==> 33 <= #[trigger] b[i] <= 126
    &&& !((exists|i: int| 0 <= i < b.len() && 97 <= #[trigger] b[i] <= 122) && (exists|i: int| 0 <= i < b.len() && 65 <= #[trigger] b[i] <= 90))
}
pub open spec fn no_upper(p: Seq<char>) -> bool {
    forall|i: int| 0 <= i < p.len() ==> !(65 <= (#[trigger] p[i]) as u32 <= 90)
}
pub open spec fn denom_ok(d: Seq<char>) -> bool {
    str_byte_len(d) > 3 && forall|i: int| 0 <= i < d.len() ==> is_ascii_alpha(#[trigger] d[i])
}
/// the 1.1.0 record for a 1.0.0 in-flight packet
pub open spec fn migrated_packet(p: v1_0_0::IBCTransfer, c: Config, r: IBCTransfer) -> bool {
    &&& r.sequence == p.sequence
    &&& r.amount.amount.0 == p.amount
    &&& r.amount.denom@ == c.protocol_chain_config.ibc_token_denom@
    &&& r.receiver@ == c.native_chain_config.staker_address.0@
    &&& r.status == p.status
}
pub open spec fn migrated_waiting(p: v1_0_0::IbcWaitingForReply, c: Config, r: IbcWaitingForReply) -> bool {
    &&& r.amount.amount.0 == p.amount
    &&& r.amount.denom@ == c.protocol_chain_config.ibc_token_denom@
    &&& r.receiver@ == c.native_chain_config.staker_address.0@
}
} // verus!
verus! {
/// `pk` lists the map `m` completely, in strictly ascending key order
pub open spec fn is_listing<V>(pk: Seq<(u64, V)>, m: SMap<u64, V>) -> bool {
    &&& forall|j: int| 0 <= j < pk.len() ==> m.dom().contains((#[trigger] pk[j]).0) && pk[j].1 == m[pk[j].0]
    &&& forall|j: int, l: int| 0 <= j < l < pk.len() ==> (#[trigger] pk[j]).0 < (#[trigger] pk[l]).0
    &&& forall|k: u64| #[trigger] m.dom().contains(k) ==> exists|j: int| 0 <= j < pk.len() && (#[trigger] pk[j]).0 == k
}
pub open spec fn among<V>(pk: Seq<(u64, V)>, n: int, k: u64) -> bool {
    exists|j: int| 0 <= j < n && (#[trigger] pk[j]).0 == k
}
} // verus!
