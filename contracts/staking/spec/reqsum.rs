verus! {
// =====================================================================================
// C05: "the batch total always equals the sum of its requests", as a sum over the request map.
// `req_sum(requests, b)` folds the amounts of the open requests keyed with batch `b` (vstd's
// finite-set fold over the set of (key, amount) entries).  `inv5` says: every batch has finitely
// many requests; a batch that has not received its tokens has total == sum; afterwards
// (withdrawals delete requests) sum <= total.  The step lemmas use the store relations the
// handlers establish on the real code; `theorem_request_sums` is the induction over histories.
// =====================================================================================
pub type RK = (u64, String);
pub open spec fn add_entry() -> spec_fn(nat, (RK, nat)) -> nat { |acc: nat, e: (RK, nat)| acc + e.1 }
pub open spec fn entries(m: SMap<RK, UnstakeRequest>, b: u64) -> vstd::iset::ISet<(RK, nat)> {
    vstd::iset::ISet::new(|e: (RK, nat)| m.dom().contains(e.0) && e.0.0 == b && m[e.0].amount.0 as nat == e.1)
}
pub open spec fn req_sum(m: SMap<RK, UnstakeRequest>, b: u64) -> nat { entries(m, b).fold(0nat, add_entry()) }

pub open spec fn inv5(s: StoreView) -> bool {
    &&& forall|k: RK| #[trigger] s.requests.dom().contains(k) ==> s.batches.dom().contains(k.0)
    &&& forall|b: u64| #[trigger] s.batches.dom().contains(b) ==> {
            &&& entries(s.requests, b).finite()
            &&& s.batches[b].status != BatchStatus::Received ==> s.batches[b].batch_total_liquid_stake.0 as nat == req_sum(s.requests, b)
            &&& s.batches[b].status == BatchStatus::Received ==> req_sum(s.requests, b) <= s.batches[b].batch_total_liquid_stake.0 as nat
        }
}

pub proof fn lemma_sum_insert_new(m: SMap<RK, UnstakeRequest>, k: RK, r: UnstakeRequest)
    requires entries(m, k.0).finite(), !m.dom().contains(k),
    ensures req_sum(m.insert(k, r), k.0) == req_sum(m, k.0) + r.amount.0, entries(m.insert(k, r), k.0).finite(),
{
    assert(entries(m.insert(k, r), k.0) =~= entries(m, k.0).insert((k, r.amount.0 as nat)));
    vstd::iset::fold::lemma_fold_insert(entries(m, k.0), 0nat, add_entry(), (k, r.amount.0 as nat));
}
pub proof fn lemma_sum_update(m: SMap<RK, UnstakeRequest>, k: RK, r: UnstakeRequest)
    requires entries(m, k.0).finite(), m.dom().contains(k),
    ensures req_sum(m.insert(k, r), k.0) + m[k].amount.0 == req_sum(m, k.0) + r.amount.0, entries(m.insert(k, r), k.0).finite(),
{
    let old = m[k].amount.0 as nat; let new = r.amount.0 as nat;
    let rest = entries(m, k.0).remove((k, old));
    assert(entries(m, k.0) =~= rest.insert((k, old)));
    assert(entries(m.insert(k, r), k.0) =~= rest.insert((k, new)));
    vstd::iset::fold::lemma_fold_insert(rest, 0nat, add_entry(), (k, old));
    vstd::iset::fold::lemma_fold_insert(rest, 0nat, add_entry(), (k, new));
}
pub proof fn lemma_sum_remove(m: SMap<RK, UnstakeRequest>, k: RK)
    requires entries(m, k.0).finite(), m.dom().contains(k),
    ensures req_sum(m.remove(k), k.0) + m[k].amount.0 == req_sum(m, k.0), entries(m.remove(k), k.0).finite(),
{
    let old = m[k].amount.0 as nat;
    let rest = entries(m, k.0).remove((k, old));
    assert(entries(m, k.0) =~= rest.insert((k, old)));
    assert(entries(m.remove(k), k.0) =~= rest);
    vstd::iset::fold::lemma_fold_insert(rest, 0nat, add_entry(), (k, old));
}
pub proof fn lemma_sum_other_batch(m: SMap<RK, UnstakeRequest>, b: u64, k: RK, r: UnstakeRequest)
    requires k.0 != b,
    ensures
        req_sum(m.insert(k, r), b) == req_sum(m, b), entries(m.insert(k, r), b) == entries(m, b),
        req_sum(m.remove(k), b) == req_sum(m, b), entries(m.remove(k), b) == entries(m, b),
{
    assert(entries(m.insert(k, r), b) =~= entries(m, b));
    assert(entries(m.remove(k), b) =~= entries(m, b));
}
pub proof fn lemma_sum_no_requests(m: SMap<RK, UnstakeRequest>, b: u64)
    requires forall|k: RK| #[trigger] m.dom().contains(k) ==> k.0 != b,
    ensures req_sum(m, b) == 0, entries(m, b).finite(),
{
    assert(entries(m, b) =~= vstd::iset::ISet::<(RK, nat)>::empty());
    vstd::iset::fold::lemma_fold_empty(0nat, add_entry());
}

// [C05.request-sum-unstake]
pub proof fn lemma_inv5_unstake(s0: StoreView, info: MessageInfo, amount: nat, s1: StoreView, ms: Seq<SubMsg>)
    requires inv5(s0), invb(s0), batches_wf(s0), step_unstake(s0, info, amount, s1, ms), 0 < amount <= AMOUNT_MAX(),
    ensures inv5(s1),
{
    let p = s0.pending_batch_id->Some_0;
    let k = (p, info.sender.0);
    let r = unstake_request_after(s0, info.sender.0, amount);
    assert(s1.requests == s0.requests.insert(k, r));
    assert(s0.batches[p].id == p);
    if s0.requests.dom().contains(k) { lemma_sum_update(s0.requests, k, r); } else { lemma_sum_insert_new(s0.requests, k, r); }
    assert forall|b: u64| #[trigger] s1.batches.dom().contains(b) implies {
            &&& entries(s1.requests, b).finite()
            &&& s1.batches[b].status != BatchStatus::Received ==> s1.batches[b].batch_total_liquid_stake.0 as nat == req_sum(s1.requests, b)
            &&& s1.batches[b].status == BatchStatus::Received ==> req_sum(s1.requests, b) <= s1.batches[b].batch_total_liquid_stake.0 as nat
        } by {
        if b != p { lemma_sum_other_batch(s0.requests, b, k, r); assert(s0.batches.dom().contains(b)); }
    }
}

// [C05.request-sum-submit]
pub proof fn lemma_inv5_submit(s0: StoreView, env: Env, s1: StoreView, ms: Seq<SubMsg>)
    requires inv5(s0), invb(s0), step_submit(s0, env, s1, ms), s0.pending_batch_id->Some_0 < u64::MAX,
    ensures inv5(s1),
{
    let p = s0.pending_batch_id->Some_0;
    assert(s0.batches[p].id == p);
    let np = (p + 1) as u64;
    assert(!s0.batches.dom().contains(np));
    lemma_sum_no_requests(s0.requests, np);
    assert(s1.requests == s0.requests);
    assert forall|b: u64| #[trigger] s1.batches.dom().contains(b) implies {
            &&& entries(s1.requests, b).finite()
            &&& s1.batches[b].status != BatchStatus::Received ==> s1.batches[b].batch_total_liquid_stake.0 as nat == req_sum(s1.requests, b)
            &&& s1.batches[b].status == BatchStatus::Received ==> req_sum(s1.requests, b) <= s1.batches[b].batch_total_liquid_stake.0 as nat
        } by {
        if b != np { assert(s0.batches.dom().contains(b)); }
    }
}

// [C05.request-sum-withdraw]
pub proof fn lemma_inv5_withdraw(s0: StoreView, env: Env, info: MessageInfo, batch_id: u64, s1: StoreView, ms: Seq<SubMsg>)
    requires inv5(s0), invb(s0), step_withdraw(s0, env, info, batch_id, s1, ms),
    ensures inv5(s1),
{
    assert(s0.batches[batch_id].id == batch_id);
    let k = (batch_id, info.sender.0);
    lemma_sum_remove(s0.requests, k);
    assert forall|b: u64| #[trigger] s1.batches.dom().contains(b) implies {
            &&& entries(s1.requests, b).finite()
            &&& s1.batches[b].status != BatchStatus::Received ==> s1.batches[b].batch_total_liquid_stake.0 as nat == req_sum(s1.requests, b)
            &&& s1.batches[b].status == BatchStatus::Received ==> req_sum(s1.requests, b) <= s1.batches[b].batch_total_liquid_stake.0 as nat
        } by {
        if b != batch_id { lemma_sum_other_batch(s0.requests, b, k, s0.requests[k]); }
    }
}

// [C05.request-sum-unstaked]
pub proof fn lemma_inv5_unstaked(s0: StoreView, env: Env, info: MessageInfo, batch_id: u64, s1: StoreView, ms: Seq<SubMsg>)
    requires inv5(s0), invb(s0), step_unstaked(s0, env, info, batch_id, s1, ms),
    ensures inv5(s1),
{
    assert(s0.batches[batch_id].id == batch_id);
    assert forall|b: u64| #[trigger] s1.batches.dom().contains(b) implies {
            &&& entries(s1.requests, b).finite()
            &&& s1.batches[b].status != BatchStatus::Received ==> s1.batches[b].batch_total_liquid_stake.0 as nat == req_sum(s1.requests, b)
            &&& s1.batches[b].status == BatchStatus::Received ==> req_sum(s1.requests, b) <= s1.batches[b].batch_total_liquid_stake.0 as nat
        } by {
        assert(s0.batches.dom().contains(b));
    }
}
} // verus!
