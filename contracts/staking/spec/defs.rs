use crate::osmosis_std::types::cosmos::bank::v1beta1::MsgSend;
use crate::osmosis_std::types::cosmos::base::v1beta1::Coin as OsmoCoin;
use crate::osmosis_std::types::ibc::applications::transfer::v1::MsgTransfer;
use crate::osmosis_std::types::cosmwasm::wasm::v1::MsgExecuteContract;
verus! {

// ------------------------------------------------------------------ small vocabulary
pub open spec fn cfg(s: StoreView) -> Config { s.config->Some_0 }
pub open spec fn st(s: StoreView) -> State { s.state->Some_0 }
pub open spec fn now_s(env: Env) -> u64 { env.block.time.secs() }

pub open spec fn IBC_TIMEOUT_NANOS() -> nat { 1_000_000_000_000 }
pub open spec fn SEVEN_DAYS() -> nat { 604800 }

/// DOM (C16): block time below 2^63 ns.
pub open spec fn env_ok(env: Env) -> bool { env.block.time.0 < 0x8000_0000_0000_0000 }

// ------------------------------------------------------------------ ibc transfer message (C07)
pub open spec fn memo_of(contract: Seq<char>) -> Seq<char> {
    "{\"ibc_callback\":\""@ + (contract + "\"}"@)
}
pub open spec fn is_transfer_msg(m: MsgTransfer, s: StoreView, env: Env, receiver: Seq<char>, denom: Seq<char>, amount: nat) -> bool {
    &&& m.source_channel@ == cfg(s).protocol_chain_config.ibc_channel_id@
    &&& m.source_port@ == "transfer"@
    &&& m.token is Some
    &&& m.token->Some_0.denom@ == denom
    &&& m.token->Some_0.amount@ == dec(amount)
    &&& m.receiver@ == receiver
    &&& m.sender@ == env.contract.address.0@
    &&& m.timeout_height is None
    &&& m.timeout_timestamp == env.block.time.0 + IBC_TIMEOUT_NANOS()
    &&& m.memo@ == memo_of(env.contract.address.0@)
}
/// the id `ibc_transfer_sub_msg` uses when none is supplied
pub open spec fn default_sub_id(env: Env) -> nat {
    match env.transaction {
        Some(tx) => tx.index as nat + env.block.time.0 as nat,
        None => env.block.time.0 as nat,
    }
}
pub open spec fn sub_id_of(env: Env, id: Option<u64>) -> nat {
    match id { Some(i) => i as nat, None => default_sub_id(env) }
}
pub open spec fn is_waiting(w: IbcWaitingForReply, receiver: Seq<char>, denom: Seq<char>, amount: nat) -> bool {
    w.receiver@ == receiver && w.amount.denom@ == denom && w.amount.amount.0 == amount
}
pub open spec fn is_transfer_sub(m: SubMsg, id: nat, s: StoreView, env: Env, receiver: Seq<char>, denom: Seq<char>, amount: nat) -> bool {
    &&& m.id == id
    &&& m.gas_limit is None
    &&& m.reply_on == ReplyOn::Always
    &&& m.msg is OsmoTransfer
    &&& is_transfer_msg(m.msg->OsmoTransfer_0, s, env, receiver, denom, amount)
}

} // verus!
verus! {
// ------------------------------------------------------------------ rates / oracle (C15)
/// DOM (C16): totals up to 10^27 and an exchange rate within [10^-3, 10^3] when LST exists.
pub open spec fn AMOUNT_MAX() -> nat { 1_000_000_000_000_000_000_000_000_000 }
pub open spec fn rate_ok(tn: nat, tl: nat) -> bool {
    tn <= AMOUNT_MAX() && tl <= AMOUNT_MAX() && (tl > 0 ==> tn > 0 && tn <= 1000 * tl && tl <= 1000 * tn)
}
pub open spec fn state_dom(s: StoreView) -> bool {
    s.state is Some && rate_ok(st(s).total_native_token.0 as nat, st(s).total_liquid_stake_token.0 as nat)
        && st(s).total_fees.0 <= AMOUNT_MAX() && st(s).total_reward_amount.0 <= AMOUNT_MAX()
}
/// what `get_rates` needs in order not to panic (weaker than DOM: K = 10^5, totals <= 10^30)
pub open spec fn rates_pre(s: StoreView) -> bool {
    let tn = st(s).total_native_token.0 as nat; let tl = st(s).total_liquid_stake_token.0 as nat;
    &&& s.state is Some
    &&& tn <= 2000 * AMOUNT_MAX() && tl <= 2000 * AMOUNT_MAX()
    &&& tl > 0 ==> tn > 0 && tn <= 100000 * tl && tl <= 100000 * tn
}
pub open spec fn redemption_rate(tn: nat, tl: nat) -> nat { if tl == 0 { 0 } else { decimal_ratio(tn, tl) } }
pub open spec fn purchase_rate(tn: nat, tl: nat) -> nat { if tl == 0 { 0 } else { decimal_ratio(tl, tn) } }

pub uninterp spec fn oracle_json(o: crate::oracle::Oracle) -> Seq<char>;
impl crate::serde_json::JsonSpec for crate::oracle::Oracle {
    open spec fn json(&self) -> Seq<char> { oracle_json(*self) }
}
/// the single PostRates message for state `s`
pub open spec fn is_oracle_msg(m: CosmosMsg, s: StoreView, env: Env, config: Config) -> bool {
    &&& m is OsmoExec
    &&& m->OsmoExec_0.sender == env.contract.address.0
    &&& config.protocol_chain_config.oracle_address is Some
    &&& m->OsmoExec_0.contract == config.protocol_chain_config.oracle_address->Some_0.0
    &&& m->OsmoExec_0.funds@.len() == 0
    &&& exists|o: crate::oracle::Oracle| {
            &&& m->OsmoExec_0.msg@ == str_bytes(oracle_json(o))
            &&& o is PostRates
            &&& o->denom == config.liquid_stake_token_denom
            &&& o->purchase_rate@ == decimal_str(purchase_rate(st(s).total_native_token.0 as nat, st(s).total_liquid_stake_token.0 as nat))
            &&& o->redemption_rate@ == decimal_str(redemption_rate(st(s).total_native_token.0 as nat, st(s).total_liquid_stake_token.0 as nat))
        }
}
/// what `update_oracle_msgs` must return for the state in `s`
pub open spec fn oracle_msgs_for(ms: Seq<CosmosMsg>, s: StoreView, env: Env, config: Config) -> bool {
    match config.protocol_chain_config.oracle_address {
        None => ms.len() == 0,
        Some(_) => ms.len() == 1 && is_oracle_msg(ms[0], s, env, config),
    }
}
} // verus!
verus! {
// ------------------------------------------------------------------ message shapes
pub open spec fn is_osmo_send(m: CosmosMsg, from: Seq<char>, to: Seq<char>, denom: Seq<char>, amount: nat) -> bool {
    &&& m is OsmoSend
    &&& m->OsmoSend_0.from_address@ == from
    &&& m->OsmoSend_0.to_address@ == to
    &&& m->OsmoSend_0.amount@.len() == 1
    &&& m->OsmoSend_0.amount@[0].denom@ == denom
    &&& m->OsmoSend_0.amount@[0].amount@ == dec(amount)
}
pub open spec fn is_bank_send(m: CosmosMsg, to: Seq<char>, denom: Seq<char>, amount: nat) -> bool {
    &&& m is Bank
    &&& match m->Bank_0 {
            BankMsg::Send { to_address, amount: coins } => {
                &&& to_address@ == to
                &&& coins@.len() == 1
                &&& coins@[0].denom@ == denom
                &&& coins@[0].amount.0 == amount
            },
            _ => false,
        }
}
pub open spec fn is_plain(m: SubMsg) -> bool { m.id == 0 && m.gas_limit is None && m.reply_on == ReplyOn::Never }

pub open spec fn is_monitor(c: Config, a: Addr) -> bool {
    exists|i: int| 0 <= i < c.monitors@.len() && c.monitors@[i] == a
}
} // verus!
verus! {
// ------------------------------------------------------------------ exchange-rate formulas (C04)
pub open spec fn mint_of(tn: nat, tl: nat, x: nat) -> nat { if tn == 0 { x } else { muldiv(tl, x, tn) } }
pub open spec fn unbond_of(tn: nat, tl: nat, b: nat) -> nat { if b == 0 { 0 } else { muldiv(tn, b, tl) } }
} // verus!
verus! {
// ------------------------------------------------------------------ ibc-hooks sender (C09)
pub open spec fn SENDER_PREFIX_SPEC() -> Seq<char> { "ibc-wasm-hook-intermediary"@ }
pub open spec fn ascii_bytes(s: Seq<char>) -> Seq<u8> { Seq::new(s.len(), |i: int| s[i] as u8) }
pub open spec fn address_hash_spec(typ: Seq<u8>, key: Seq<u8>) -> Seq<u8> { sha256(sha256(typ) + key) }
pub open spec fn hooks_sender(prefix: Seq<char>, channel: Seq<char>, sender: Seq<char>) -> Option<Seq<char>> {
    bech32_enc(prefix, to_base32_spec(address_hash_spec(ascii_bytes(SENDER_PREFIX_SPEC()), str_bytes(channel + ("/"@ + sender)))),
        crate::bech32::Variant::Bech32)
}
/// the account accepted as cross-chain sender for `native` (None: derivation impossible => nobody)
pub open spec fn hooks_account(c: Config, native: Addr) -> Option<Seq<char>> {
    hooks_sender(c.protocol_chain_config.account_address_prefix@, c.protocol_chain_config.ibc_channel_id@, native.0@)
}
#[verifier::opaque]
pub open spec fn first_coin(funds: Seq<Coin>, denom: Seq<char>) -> Option<Coin> {
    if exists|i: int| 0 <= i < funds.len() && funds[i].denom@ == denom {
        let i = choose|i: int| 0 <= i < funds.len() && funds[i].denom@ == denom
            && forall|j: int| 0 <= j < i ==> funds[j].denom@ != denom;
        Some(funds[i])
    } else { None }
}
pub open spec fn is_first_at(funds: Seq<Coin>, denom: Seq<char>, i: int) -> bool {
    0 <= i < funds.len() && funds[i].denom@ == denom && forall|j: int| 0 <= j < i ==> funds[j].denom@ != denom
}
pub proof fn lemma_least_index(funds: Seq<Coin>, denom: Seq<char>, k: int)
    requires 0 <= k < funds.len(), funds[k].denom@ == denom,
    ensures exists|i: int| is_first_at(funds, denom, i),
    decreases k,
{
    if forall|j: int| 0 <= j < k ==> funds[j].denom@ != denom {
        assert(is_first_at(funds, denom, k));
    } else {
        let j = choose|j: int| 0 <= j < k && funds[j].denom@ == denom;
        lemma_least_index(funds, denom, j);
    }
}
/// characterisation of `first_coin` (the only place its `choose` is unfolded)
pub proof fn lemma_first_coin(funds: Seq<Coin>, denom: Seq<char>)
    ensures
        first_coin(funds, denom) is Some ==> exists|i: int| is_first_at(funds, denom, i) && first_coin(funds, denom) == Some(funds[i]),
        first_coin(funds, denom) is None ==> forall|i: int| 0 <= i < funds.len() ==> (#[trigger] funds[i]).denom@ != denom,
        forall|i: int| is_first_at(funds, denom, i) ==> first_coin(funds, denom) == Some(funds[i]),
{
    reveal(first_coin);
    if exists|i: int| 0 <= i < funds.len() && funds[i].denom@ == denom {
        let k = choose|i: int| 0 <= i < funds.len() && funds[i].denom@ == denom;
        lemma_least_index(funds, denom, k);
        let i0 = choose|i: int| 0 <= i < funds.len() && funds[i].denom@ == denom
            && forall|j: int| 0 <= j < i ==> funds[j].denom@ != denom;
        let w = choose|i: int| is_first_at(funds, denom, i);
        assert(is_first_at(funds, denom, w));
        assert(is_first_at(funds, denom, i0));
        assert forall|i: int| is_first_at(funds, denom, i) implies first_coin(funds, denom) == Some(funds[i]) by {
            // two least indices coincide
            if i < i0 { assert(funds[i].denom@ != denom); }
            if i0 < i { assert(funds[i0].denom@ != denom); }
        }
    }
}
} // verus!
verus! {
// ------------------------------------------------------------------ configuration validation (C14)
/// BIP-173 human-readable part as accepted and normalised by `validate_address_prefix`
pub open spec fn valid_prefix(p: Seq<char>) -> bool {
    &&& 1 <= p.len() <= 83
    &&& forall|i: int| 0 <= i < p.len() ==> 33 <= (#[trigger] p[i]) as u32 <= 126 && !(65 <= p[i] as u32 <= 90)
}
/// what `validate_address_prefix` accepts, over the UTF-8 bytes: 1..=83 bytes, all printable ASCII, not mixed case
pub open spec fn prefix_acceptable(p: Seq<char>) -> bool {
    let b = str_bytes(p);
    &&& 1 <= b.len() <= 83
    &&& forall|i: int| 0 <= i < b.len() ==> 33 <= #[trigger] b[i] <= 126
    &&& !((exists|i: int| 0 <= i < b.len() && 97 <= #[trigger] b[i] <= 122) && (exists|i: int| 0 <= i < b.len() && 65 <= #[trigger] b[i] <= 90))
}
pub open spec fn no_upper(p: Seq<char>) -> bool {
    forall|i: int| 0 <= i < p.len() ==> !(65 <= (#[trigger] p[i]) as u32 <= 90)
}
pub open spec fn all_valid_under(addrs: Seq<String>, prefix: Seq<char>) -> bool {
    forall|i: int| 0 <= i < addrs.len() ==> bech32_hrp((#[trigger] addrs[i])@) == Some(prefix)
}
pub open spec fn pairwise_distinct(addrs: Seq<String>) -> bool {
    forall|i: int, j: int| 0 <= i < j < addrs.len() ==> (#[trigger] addrs[i])@ != (#[trigger] addrs[j])@
}
pub open spec fn same_strings(out: Seq<Addr>, addrs: Seq<String>) -> bool {
    out.len() == addrs.len() && forall|i: int| 0 <= i < addrs.len() ==> (#[trigger] out[i]).0@ == addrs[i]@
}
} // verus!
verus! {
// typed views (they fix the element type of locals declared with an inferred type)
pub open spec fn addr_seq(v: Vec<Addr>) -> Seq<Addr> { v@ }
pub open spec fn string_set(s: std::collections::HashSet<String>) -> Set<String> { s@ }
} // verus!
verus! {
// ------------------------------------------------------------------ validated configuration sections (C14)
pub use crate::types::{UnsafeNativeChainConfig, UnsafeProtocolChainConfig, UnsafeProtocolFeeConfig};
pub open spec fn denom_ok(d: Seq<char>) -> bool {
    str_byte_len(d) > 3 && forall|i: int| 0 <= i < d.len() ==> is_ascii_alpha(#[trigger] d[i])
}
pub open spec fn ibc_denom_ok(d: Seq<char>) -> bool {
    d.len() >= 4 && d.take(4) == "ibc/"@ && str_byte_len(d.skip(4)) == 64
}
pub open spec fn channel_ok(c: Seq<char>) -> bool {
    c.len() >= 9 && c.take(8) == "channel-"@ && all_digits(c.skip(8))
}
pub open spec fn opt_addr_validated(input: Option<String>, out: Option<Addr>, prefix: Seq<char>) -> bool {
    match input {
        None => out is None,
        Some(a) => out is Some && out->Some_0.0@ == a@ && bech32_hrp(a@) == Some(prefix),
    }
}
/// a native-chain section as accepted: well-formed, and equal to the input field by field
pub open spec fn native_validated(u: UnsafeNativeChainConfig, r: NativeChainConfig) -> bool {
    &&& valid_prefix(r.account_address_prefix@) && r.account_address_prefix@ == u.account_address_prefix@
    &&& valid_prefix(r.validator_address_prefix@)
    &&& r.token_denom@ == u.token_denom@ && denom_ok(r.token_denom@)
    &&& all_valid_under(u.validators@, r.validator_address_prefix@) && pairwise_distinct(u.validators@)
    &&& same_strings(r.validators@, u.validators@)
    &&& r.unbonding_period == u.unbonding_period
    &&& r.staker_address.0@ == u.staker_address@ && bech32_hrp(u.staker_address@) == Some(r.account_address_prefix@)
    &&& r.reward_collector_address.0@ == u.reward_collector_address@ && bech32_hrp(u.reward_collector_address@) == Some(r.account_address_prefix@)
}
pub open spec fn protocol_validated(u: UnsafeProtocolChainConfig, r: ProtocolChainConfig) -> bool {
    &&& valid_prefix(r.account_address_prefix@)
    &&& u.oracle_address is Some ==> r.account_address_prefix@ == u.account_address_prefix@
    &&& r.ibc_token_denom@ == u.ibc_token_denom@ && ibc_denom_ok(r.ibc_token_denom@)
    &&& r.ibc_channel_id@ == u.ibc_channel_id@
    &&& r.minimum_liquid_stake_amount == u.minimum_liquid_stake_amount
    &&& opt_addr_validated(u.oracle_address, r.oracle_address, r.account_address_prefix@)
}
pub open spec fn fee_validated(u: UnsafeProtocolFeeConfig, p: ProtocolChainConfig, r: ProtocolFeeConfig) -> bool {
    &&& r.dao_treasury_fee == u.dao_treasury_fee
    &&& opt_addr_validated(u.treasury_address, r.treasury_address, p.account_address_prefix@)
}
} // verus!
verus! {
// ------------------------------------------------------------------ pagination (C17)
pub use crate::cw_storage_plus::{Bound, Bounder, KeyDeserialize, MapRange, range_of};
pub open spec fn item_vals<K, V>(items: Seq<StdResult<(K, V)>>) -> Seq<V> {
    items.map_values(|r: StdResult<(K, V)>| r->Ok_0.1)
}
pub open spec fn dyn_pass<V>(f: Option<DynPred<V>>) -> spec_fn(V) -> bool {
    |v: V| match f { None => true, Some(d) => (d.p@)(v) }
}
/// the page: the first `limit` of the values that pass the filter
pub open spec fn page_of_p<K, V>(items: Seq<StdResult<(K, V)>>, p: spec_fn(V) -> bool, limit: Option<u32>) -> Seq<V> {
    let fv = item_vals(items).filter(p);
    let n: int = match limit { Some(l) => l as int, None => u32::MAX as int };
    if fv.len() <= n { fv } else { fv.take(n) }
}
pub open spec fn page_of<K, V>(items: Seq<StdResult<(K, V)>>, f: Option<DynPred<V>>, limit: Option<u32>) -> Seq<V> {
    page_of_p(items, dyn_pass(f), limit)
}
pub open spec fn page_min<'a, K: Bounder<'a>>(start_after: Option<K>, order: Order) -> Option<Bound<'a, K>> {
    match order { Order::Ascending => match start_after { Some(k) => Some(Bound::Exclusive((k, core::marker::PhantomData))), None => None }, Order::Descending => None }
}
pub open spec fn page_max<'a, K: Bounder<'a>>(start_after: Option<K>, order: Order) -> Option<Bound<'a, K>> {
    match order { Order::Descending => match start_after { Some(k) => Some(Bound::Exclusive((k, core::marker::PhantomData))), None => None }, Order::Ascending => None }
}
} // verus!

verus! {
// ------------------------------------------------------------------ query responses (C17)
pub use crate::msg::{BatchResponse, BatchesResponse, ConfigResponse, StateResponse, IBCQueueResponse, IBCReplyQueueResponse};
pub open spec fn status_str(s: BatchStatus) -> Seq<char> {
    match s { BatchStatus::Pending => "pending"@, BatchStatus::Submitted => "submitted"@, BatchStatus::Received => "received"@ }
}
pub open spec fn is_batch_resp(r: BatchResponse, b: Batch) -> bool {
    &&& r.id == b.id
    &&& r.batch_total_liquid_stake == b.batch_total_liquid_stake
    &&& r.expected_native_unstaked == (match b.expected_native_unstaked { Some(x) => x, None => Uint128(0) })
    &&& r.received_native_unstaked == (match b.received_native_unstaked { Some(x) => x, None => Uint128(0) })
    &&& r.next_batch_action_time == Timestamp(((match b.next_batch_action_time { Some(t) => t, None => 0u64 }) * 1_000_000_000) as u64)
    &&& r.status@ == status_str(b.status)
    &&& r.unstake_request_count == (match b.unstake_requests_count { Some(c) => c, None => 0u64 })
}
pub open spec fn are_batch_resps(rs: Seq<BatchResponse>, bs: Seq<Batch>) -> bool {
    rs.len() == bs.len() && forall|i: int| 0 <= i < bs.len() ==> is_batch_resp(#[trigger] rs[i], bs[i])
}
pub open spec fn status_pred(status: Option<BatchStatus>) -> spec_fn(Batch) -> bool {
    |b: Batch| match status { None => true, Some(s) => b.status == s }
}
/// DOM (C16): batch deadlines are block times in seconds (they were computed from one)
pub open spec fn batch_time_ok(b: Batch) -> bool {
    b.next_batch_action_time is Some ==> b.next_batch_action_time->Some_0 * 1_000_000_000 <= u64::MAX
}
} // verus!
verus! {
// ------------------------------------------------------------------ recovery (C07)
pub open spec fn refundable(p: IBCTransfer) -> bool {
    p.status == PacketLifecycleStatus::AckFailure || p.status == PacketLifecycleStatus::TimedOut
}
pub open spec fn recover_pred(receiver: Seq<char>) -> spec_fn(IBCTransfer) -> bool {
    |p: IBCTransfer| p.receiver@ == receiver && refundable(p)
}
pub open spec fn seq_total(ps: Seq<IBCTransfer>) -> nat
    decreases ps.len(),
{
    if ps.len() == 0 { 0 } else { seq_total(ps.drop_last()) + ps.last().amount.amount.0 as nat }
}
/// the in-flight map after removing the sequences of the first `n` packets
pub open spec fn remove_all(m: SMap<u64, IBCTransfer>, ps: Seq<IBCTransfer>, n: int) -> SMap<u64, IBCTransfer>
    decreases n,
{
    if n <= 0 { m } else { remove_all(m, ps, n - 1).remove(ps[n - 1].sequence) }
}
/// reachable-state facts about the in-flight table (DOM for C16; proved inductive in `world`)
pub open spec fn inflight_wf(s: StoreView) -> bool {
    forall|k: u64| #[trigger] s.inflight.dom().contains(k) ==> {
        &&& s.inflight[k].sequence == k
        &&& k < 0x8000_0000_0000_0000
        &&& s.inflight[k].amount.amount.0 <= AMOUNT_MAX()
    }
}
pub open spec fn is_max_key(m: SMap<u64, IBCTransfer>, k: u64) -> bool {
    m.dom().contains(k) && forall|j: u64| #[trigger] m.dom().contains(j) ==> j <= k
}
pub open spec fn recover_receiver(c: Config, receiver: Option<String>) -> Seq<char> {
    match receiver { Some(s) => s@, None => c.native_chain_config.staker_address.0@ }
}
/// the packets a recovery call re-sends, in order
pub open spec fn recover_set(s0: StoreView, selected: Option<Vec<u64>>, rcv: Seq<char>, page: bool, ps: Seq<IBCTransfer>) -> bool {
    match selected {
        Some(ids) => {
            &&& ps.len() == ids@.len()
            &&& forall|i: int| 0 <= i < ids@.len() ==> s0.inflight.dom().contains(#[trigger] ids@[i]) && ps[i] == s0.inflight[ids@[i]] && ps[i].receiver@ == rcv
        },
        None => exists|all: Seq<StdResult<(u64, IBCTransfer)>>|
            range_of(s0.inflight, None::<Bound<u64>>, None::<Bound<u64>>, Order::Ascending, all)
            && ps == page_of_p(all, recover_pred(rcv), if page { Some(10u32) } else { None }),
    }
}
} // verus!
