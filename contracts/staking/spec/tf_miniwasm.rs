verus! {
// Token-factory message views, miniwasm build: Stargate messages carrying the canonical
// protobuf bytes of the initia-proto structs, under the module's type URLs.
pub use crate::initia_proto::miniwasm::tokenfactory::v1::{MsgCreateDenom as IMsgCreateDenom, MsgMint as IMsgMint, MsgBurn as IMsgBurn};
pub use crate::prost::proto_bytes;
pub open spec fn is_stargate(m: CosmosMsg, url: Seq<char>, bytes: Seq<u8>) -> bool {
    m is Stargate && m->type_url@ == url && m->value.0@ == bytes
}
pub open spec fn tf_is_create_denom(m: CosmosMsg, sender: Seq<char>, subdenom: Seq<char>) -> bool {
    exists|p: IMsgCreateDenom| is_stargate(m, "/miniwasm.tokenfactory.v1.MsgCreateDenom"@, #[trigger] proto_bytes(p))
        && p.sender@ == sender && p.subdenom@ == subdenom
}
pub open spec fn tf_is_mint(m: CosmosMsg, sender: Seq<char>, denom: Seq<char>, amount: nat, to: Seq<char>) -> bool {
    exists|p: IMsgMint| is_stargate(m, "/miniwasm.tokenfactory.v1.MsgMint"@, #[trigger] proto_bytes(p))
        && p.sender@ == sender && p.amount is Some && p.amount->Some_0.denom@ == denom
        && p.amount->Some_0.amount@ == dec(amount) && p.mint_to_address@ == to
}
/// miniwasm's MsgBurn has no burn-from field: the holder is the sender
pub open spec fn tf_is_burn(m: CosmosMsg, sender: Seq<char>, denom: Seq<char>, amount: nat, from: Seq<char>) -> bool {
    exists|p: IMsgBurn| is_stargate(m, "/miniwasm.tokenfactory.v1.MsgBurn"@, #[trigger] proto_bytes(p))
        && p.sender@ == sender && from == sender && p.amount is Some && p.amount->Some_0.denom@ == denom
        && p.amount->Some_0.amount@ == dec(amount)
}
} // verus!
