verus! {
// =====================================================================================
// Histories.  `Ev` enumerates every kind of successful step of the contract together with
// the environment's ledger update for it; `history(tr, evs)` says that consecutive
// (store, ledger) pairs of `tr` are related by the step relations that the handlers'
// `ensures` clauses establish on the real code.  The theorems are inductions over the
// length of the history using the per-step preservation lemmas of world.rs: the accounting
// invariants of C01 / C02 / C03 and the batch-table invariant of C06 hold at every point of
// every history that starts in a state where they hold (e.g. right after instantiation).
// A re-basing ResumeContract (totals other than the current ones) starts a new history
// with the re-based ledger of `lemma_resume`.
// =====================================================================================
pub enum Ev {
    Stake { env: Env, info: MessageInfo, amount: nat, mint_to: Option<String>, flag: Option<bool>, ms: Seq<SubMsg> },
    Unstake { info: MessageInfo, amount: nat, ms: Seq<SubMsg> },
    Submit { env: Env, ms: Seq<SubMsg> },
    Withdraw { env: Env, info: MessageInfo, batch_id: u64, ms: Seq<SubMsg> },
    Rewards { env: Env, info: MessageInfo, ms: Seq<SubMsg> },
    Unstaked { env: Env, info: MessageInfo, batch_id: u64, ms: Seq<SubMsg> },
    FeeWithdraw { env: Env, amount: nat, ms: Seq<SubMsg> },
    /// any successful call that leaves the totals and the batch table alone: validator set, config,
    /// ownership, breaker, a resume restating the current totals, reply, acknowledgements and time-outs
    Frame,
    /// E4: the refund of a failed / timed-out tracked staked-asset transfer arrives
    Refund { amt: nat },
    /// a recovery re-sends refunded staked asset
    Recover { ps: Seq<IBCTransfer> },
    /// E4: the refund of a failed / timed-out tracked LST transfer arrives
    RefundLst { amt: nat },
    /// a recovery re-sends refunded LST
    RecoverLst { ps: Seq<IBCTransfer> },
}

pub open spec fn ev_dom(s0: StoreView, e: Ev) -> bool {
    match e {
        Ev::Stake { amount, .. } => state_dom(s0) && amount <= AMOUNT_MAX(),
        Ev::Unstake { amount, .. } => unstake_dom(s0, amount) && s0.pending_batch_id is Some && pending_total(s0) <= u128::MAX - AMOUNT_MAX(),
        Ev::Submit { .. } => state_dom(s0) && s0.pending_batch_id is Some && s0.pending_batch_id->Some_0 < u64::MAX,
        Ev::Rewards { env, info, .. } => rewards_dom(s0, env, info),
        _ => true,
    }
}

/// the totals the accounting invariants read are unchanged, and so is the batch table
pub open spec fn same_books(s0: StoreView, s1: StoreView) -> bool {
    &&& s0.state is Some && s1.state is Some
    &&& tn(s1) == tn(s0) && tl(s1) == tl(s0) && fees(s1) == fees(s0)
    &&& s1.batches == s0.batches && s1.pending_batch_id == s0.pending_batch_id && s1.requests == s0.requests
}

/// what the step does to the store (established by the handlers' `ensures` on the real code)
pub open spec fn ev_store(s0: StoreView, e: Ev, s1: StoreView) -> bool {
    match e {
        Ev::Stake { env, info, amount, mint_to, flag, ms } => step_stake(s0, env, info, amount, mint_to, flag, s1, ms),
        Ev::Unstake { info, amount, ms } => step_unstake(s0, info, amount, s1, ms),
        Ev::Submit { env, ms } => step_submit(s0, env, s1, ms),
        Ev::Withdraw { env, info, batch_id, ms } => step_withdraw(s0, env, info, batch_id, s1, ms),
        Ev::Rewards { env, info, ms } => step_rewards(s0, env, info, s1, ms),
        Ev::Unstaked { env, info, batch_id, ms } => step_unstaked(s0, env, info, batch_id, s1, ms),
        Ev::FeeWithdraw { env, amount, ms } => step_fee_withdraw(s0, env, amount, s1, ms),
        Ev::Frame => same_books(s0, s1),
        Ev::Refund { amt } => same_books(s0, s1),
        Ev::Recover { ps } => same_books(s0, s1),
        Ev::RefundLst { amt } => same_books(s0, s1),
        Ev::RecoverLst { ps } => same_books(s0, s1),
    }
}
/// what the environment does to the ledger for that step (E1-E4 of DESIGN section 4)
pub open spec fn led_of(l0: Ledger, s0: StoreView, e: Ev) -> Ledger {
    match e {
        Ev::Stake { amount, .. } => led_stake(l0, s0, amount),
        Ev::Unstake { amount, .. } => led_unstake(l0, amount),
        Ev::Submit { .. } => led_submit(l0, s0),
        Ev::Withdraw { info, batch_id, .. } => led_withdraw(l0, s0, info, batch_id),
        Ev::Rewards { info, .. } => led_rewards(l0, s0, info),
        Ev::Unstaked { info, .. } => led_unstaked(l0, s0, info),
        Ev::FeeWithdraw { amount, .. } => Ledger { bal: l0.bal - amount, ..l0 },
        Ev::Frame => l0,
        Ev::Refund { amt } => Ledger { bal: l0.bal + amt, refunded: l0.refunded + amt, ..l0 },
        Ev::Recover { ps } => Ledger { bal: l0.bal - seq_total(ps), refunded: l0.refunded - seq_total(ps), ..l0 },
        Ev::RefundLst { amt } => Ledger { lst_bal: l0.lst_bal + amt, lst_refunded: l0.lst_refunded + amt, ..l0 },
        Ev::RecoverLst { ps } => Ledger { lst_bal: l0.lst_bal - seq_total(ps), lst_refunded: l0.lst_refunded - seq_total(ps), ..l0 },
    }
}
pub open spec fn ev_step(s0: StoreView, l0: Ledger, e: Ev, s1: StoreView, l1: Ledger) -> bool {
    ev_store(s0, e, s1) && l1 == led_of(l0, s0, e)
}

/// the event a successful `execute(msg)` is (ResumeContract re-bases the ledger and is not an event)
pub open spec fn ev_of(s0: StoreView, msg: crate::msg::ExecuteMsg, env: Env, info: MessageInfo, ms: Seq<SubMsg>) -> Ev {
    match msg {
        crate::msg::ExecuteMsg::LiquidStake { mint_to, transfer_to_native_chain, expected_mint_amount } =>
            Ev::Stake { env, info, amount: info.funds@[0].amount.0 as nat, mint_to, flag: transfer_to_native_chain, ms },
        crate::msg::ExecuteMsg::LiquidUnstake {} => Ev::Unstake { info, amount: info.funds@[0].amount.0 as nat, ms },
        crate::msg::ExecuteMsg::SubmitBatch {} => Ev::Submit { env, ms },
        crate::msg::ExecuteMsg::Withdraw { batch_id } => Ev::Withdraw { env, info, batch_id, ms },
        crate::msg::ExecuteMsg::ReceiveRewards {} => Ev::Rewards { env, info, ms },
        crate::msg::ExecuteMsg::ReceiveUnstakedTokens { batch_id } => Ev::Unstaked { env, info, batch_id, ms },
        crate::msg::ExecuteMsg::FeeWithdraw { amount } => Ev::FeeWithdraw { env, amount: amount.0 as nat, ms },
        crate::msg::ExecuteMsg::RecoverPendingIbcTransfers { paginated, selected_packets, receiver } => {
            let page = match paginated { Some(p) => p, None => false };
            let ps = choose|ps: Seq<IBCTransfer>| #[trigger] recover_set(s0, selected_packets, recover_receiver(cfg(s0), receiver), page, ps);
            if ps.len() > 0 && ps[0].amount.denom@ == cfg(s0).protocol_chain_config.ibc_token_denom@ { Ev::Recover { ps } }
            else if ps.len() > 0 && ps[0].amount.denom@ == cfg(s0).liquid_stake_token_denom@ { Ev::RecoverLst { ps } }
            else { Ev::Frame }
        },
        _ => Ev::Frame,
    }
}

pub open spec fn inv_all(s: StoreView, l: Ledger) -> bool { inv1(s, l) && inv2(s, l) && inv3(s, l) && invz(s) }

pub open spec fn history(tr: Seq<(StoreView, Ledger)>, evs: Seq<Ev>) -> bool {
    &&& tr.len() == evs.len() + 1
    &&& forall|i: int| 0 <= i < evs.len() ==> ev_dom((#[trigger] tr[i]).0, evs[i]) && ev_step(tr[i].0, tr[i].1, evs[i], tr[i + 1].0, tr[i + 1].1)
}

pub open spec fn zero_ledger() -> Ledger { Ledger { fwd: 0, set_aside: 0, swept: 0, supply: 0, bal: 0, owed_batches: 0, refunded: 0, lst_bal: 0, lst_refunded: 0 } }

/// the state `instantiate` writes (all totals zero) satisfies every accounting invariant with the empty ledger
// [C01.history-init] [C02.history-init] [C03.history-init]
pub proof fn lemma_history_init(s: StoreView)
    requires s.state is Some, tn(s) == 0, tl(s) == 0, fees(s) == 0,
    ensures inv_all(s, zero_ledger()),
{
}

/// one step of any kind preserves the accounting invariants
// [C01.history-step] [C02.history-step] [C03.history-step]
pub proof fn lemma_history_step(s0: StoreView, l0: Ledger, e: Ev, s1: StoreView, l1: Ledger)
    requires inv_all(s0, l0), ev_dom(s0, e), ev_step(s0, l0, e, s1, l1),
    ensures inv_all(s1, l1),
{
    match e {
        Ev::Stake { env, info, amount, mint_to, flag, ms } => {
            lemma_stake_preserves(s0, env, info, amount, mint_to, flag, s1, ms, l0);
            lemma_stake_solvent(s0, env, info, amount, mint_to, flag, s1, ms, l0);
        }
        Ev::Unstake { info, amount, ms } => { lemma_unstake_preserves(s0, info, amount, s1, ms, led_unstake(l0, amount)); lemma_unstake_preserves(s0, info, amount, s1, ms, l0); }
        Ev::Submit { env, ms } => { lemma_submit_preserves(s0, env, s1, ms, l0); lemma_submit_solvent(s0, env, s1, ms, l0); }
        Ev::Withdraw { env, info, batch_id, ms } => { lemma_withdraw_preserves(s0, env, info, batch_id, s1, ms, l0); }
        Ev::Rewards { env, info, ms } => { lemma_rewards_preserves(s0, env, info, s1, ms, l0); }
        Ev::Unstaked { env, info, batch_id, ms } => { lemma_unstaked_preserves(s0, env, info, batch_id, s1, ms, l0); }
        Ev::FeeWithdraw { env, amount, ms } => { lemma_fee_withdraw_preserves(s0, env, amount, s1, ms, l0); }
        Ev::Frame => { }
        Ev::Refund { amt } => { }
        Ev::Recover { ps } => { }
        Ev::RefundLst { amt } => { }
        Ev::RecoverLst { ps } => { }
    }
}

/// C01 / C02 / C03 hold at every point of every history
// [C01.all-histories] [C02.all-histories] [C03.all-histories]
pub proof fn theorem_all_histories(tr: Seq<(StoreView, Ledger)>, evs: Seq<Ev>)
    requires history(tr, evs), inv_all(tr[0].0, tr[0].1),
    ensures forall|i: int| 0 <= i < tr.len() ==> inv_all((#[trigger] tr[i]).0, tr[i].1),
    decreases evs.len(),
{
    if evs.len() > 0 {
        let n = evs.len() as int;
        let tr0 = tr.drop_last(); let evs0 = evs.drop_last();
        assert(history(tr0, evs0)) by {
            assert forall|i: int| 0 <= i < evs0.len() implies ev_dom((#[trigger] tr0[i]).0, evs0[i]) && ev_step(tr0[i].0, tr0[i].1, evs0[i], tr0[i + 1].0, tr0[i + 1].1) by {
                assert(tr0[i] == tr[i] && tr0[i + 1] == tr[i + 1] && evs0[i] == evs[i]);
            }
        }
        assert(tr0[0] == tr[0]);
        theorem_all_histories(tr0, evs0);
        assert(tr0[n - 1] == tr[n - 1]);
        lemma_history_step(tr[n - 1].0, tr[n - 1].1, evs[n - 1], tr[n].0, tr[n].1);
        assert forall|i: int| 0 <= i < tr.len() implies inv_all((#[trigger] tr[i]).0, tr[i].1) by {
            if i < n { assert(tr0[i] == tr[i]); }
        }
    }
}

/// C06: exactly one pending batch with the highest id, and C03 (second half): the contract's own LST balance is
/// the pending batch total plus refunded LST transfers - at every point of every history
// [C06.all-histories] [C03.lst-balance-all-histories] [C16.status-fields-all-histories]
pub proof fn theorem_batch_table(tr: Seq<(StoreView, Ledger)>, evs: Seq<Ev>)
    requires history(tr, evs), invb(tr[0].0), inv3b(tr[0].0, tr[0].1), inv_status(tr[0].0),
    ensures forall|i: int| 0 <= i < tr.len() ==> invb((#[trigger] tr[i]).0) && inv3b(tr[i].0, tr[i].1) && inv_status(tr[i].0),
    decreases evs.len(),
{
    if evs.len() > 0 {
        let n = evs.len() as int;
        let tr0 = tr.drop_last(); let evs0 = evs.drop_last();
        assert(history(tr0, evs0)) by {
            assert forall|i: int| 0 <= i < evs0.len() implies ev_dom((#[trigger] tr0[i]).0, evs0[i]) && ev_step(tr0[i].0, tr0[i].1, evs0[i], tr0[i + 1].0, tr0[i + 1].1) by {
                assert(tr0[i] == tr[i] && tr0[i + 1] == tr[i + 1] && evs0[i] == evs[i]);
            }
        }
        assert(tr0[0] == tr[0]);
        theorem_batch_table(tr0, evs0);
        assert(tr0[n - 1] == tr[n - 1]);
        let s0 = tr[n - 1].0; let s1 = tr[n].0; let l0 = tr[n - 1].1;
        assert(ev_dom(tr[n - 1].0, evs[n - 1]) && ev_step(tr[n - 1].0, tr[n - 1].1, evs[n - 1], tr[n].0, tr[n].1));
        match evs[n - 1] {
            Ev::Unstake { info, amount, ms } => { lemma_invb_unstake(s0, info, amount, s1, ms); lemma_lst_unstake(s0, info, amount, s1, ms, l0); lemma_status_unstake(s0, info, amount, s1, ms); }
            Ev::Submit { env, ms } => { lemma_invb_submit(s0, env, s1, ms); lemma_lst_submit(s0, env, s1, ms, l0); lemma_status_submit(s0, env, s1, ms); }
            Ev::Unstaked { env, info, batch_id, ms } => { lemma_invb_unstaked(s0, env, info, batch_id, s1, ms); lemma_lst_unstaked(s0, env, info, batch_id, s1, ms, l0); lemma_status_unstaked(s0, env, info, batch_id, s1, ms); }
            Ev::Stake { .. } => { }
            Ev::Rewards { .. } => { }
            Ev::Withdraw { .. } => { }
            Ev::FeeWithdraw { .. } => { }
            _ => { assert(s1.batches == s0.batches && s1.pending_batch_id == s0.pending_batch_id); }
        }
        assert forall|i: int| 0 <= i < tr.len() implies invb((#[trigger] tr[i]).0) && inv3b(tr[i].0, tr[i].1) && inv_status(tr[i].0) by {
            if i < n { assert(tr0[i] == tr[i]); }
        }
    }
}

/// C05: every batch's total equals the sum of its open requests until its tokens arrive, and bounds it afterwards -
/// at every point of every history
// [C05.request-sums-all-histories]
pub proof fn theorem_request_sums(tr: Seq<(StoreView, Ledger)>, evs: Seq<Ev>)
    requires history(tr, evs), invb(tr[0].0), inv3b(tr[0].0, tr[0].1), inv_status(tr[0].0), inv5(tr[0].0),
    ensures forall|i: int| 0 <= i < tr.len() ==> inv5((#[trigger] tr[i]).0),
    decreases evs.len(),
{
    if evs.len() > 0 {
        let n = evs.len() as int;
        let tr0 = tr.drop_last(); let evs0 = evs.drop_last();
        assert(history(tr0, evs0)) by {
            assert forall|i: int| 0 <= i < evs0.len() implies ev_dom((#[trigger] tr0[i]).0, evs0[i]) && ev_step(tr0[i].0, tr0[i].1, evs0[i], tr0[i + 1].0, tr0[i + 1].1) by {
                assert(tr0[i] == tr[i] && tr0[i + 1] == tr[i + 1] && evs0[i] == evs[i]);
            }
        }
        assert(tr0[0] == tr[0]);
        theorem_request_sums(tr0, evs0);
        theorem_batch_table(tr0, evs0);
        assert(tr0[n - 1] == tr[n - 1]);
        let s0 = tr[n - 1].0; let s1 = tr[n].0;
        assert(ev_dom(tr[n - 1].0, evs[n - 1]) && ev_step(tr[n - 1].0, tr[n - 1].1, evs[n - 1], tr[n].0, tr[n].1));
        assert(inv5(s0) && invb(s0));
        match evs[n - 1] {
            Ev::Unstake { info, amount, ms } => { lemma_inv5_unstake(s0, info, amount, s1, ms); }
            Ev::Submit { env, ms } => { lemma_inv5_submit(s0, env, s1, ms); }
            Ev::Withdraw { env, info, batch_id, ms } => { lemma_inv5_withdraw(s0, env, info, batch_id, s1, ms); }
            Ev::Unstaked { env, info, batch_id, ms } => { lemma_inv5_unstaked(s0, env, info, batch_id, s1, ms); }
            Ev::Stake { .. } => { assert(s1.batches == s0.batches && s1.requests == s0.requests); }
            Ev::Rewards { .. } => { assert(s1.batches == s0.batches && s1.requests == s0.requests); }
            Ev::FeeWithdraw { .. } => { assert(s1.batches == s0.batches && s1.requests == s0.requests); }
            _ => { assert(s1.batches == s0.batches && s1.requests == s0.requests); }
        }
        assert forall|i: int| 0 <= i < tr.len() implies inv5((#[trigger] tr[i]).0) by {
            if i < n { assert(tr0[i] == tr[i]); }
        }
    }
}
} // verus!
