verus! {
// ------------------------------------------------------------------ arithmetic lemmas (all proved)
/// staking at a rate within [1/1000, 1000] leaves the rate within [1/1000, 2000]
pub proof fn lemma_stake_rate(tn: nat, tl: nat, x: nat)
    requires
        x > 0,
        tl > 0 ==> tn > 0 && tn <= 1000 * tl && tl <= 1000 * tn,
        tl == 0 ==> tn == 0,
    ensures ({
        let m = mint_of(tn, tl, x);
        &&& m <= 1000 * x
        &&& m > 0 ==> tn + x <= 2000 * (tl + m) && tl + m <= 1000 * (tn + x)
    }),
{
    let m = mint_of(tn, tl, x);
    if tn == 0 {
    } else {
        lemma_muldiv_floor(tl, x, tn);
        lemma_muldiv_bound(tl, x, tn, 1000);
        if m > 0 {
            assert(x <= 1000 * (m + 1)) by (nonlinear_arith) requires tl * x < (m + 1) * tn, tn <= 1000 * tl, tl > 0;
        }
    }
}
/// submitting a batch keeps the remaining rate within [1/100000, 100000] – enough for `rates_pre`
pub proof fn lemma_submit_rate(tn: nat, tl: nat, b: nat)
    requires tl > 0, tn > 0, tn <= 1000 * tl, tl <= 1000 * tn, b <= tl,
    ensures ({
        let u = unbond_of(tn, tl, b);
        &&& u <= tn
        &&& tl - b > 0 ==> tn - u > 0 && tn - u <= 100000 * (tl - b) && tl - b <= 100000 * (tn - u)
    }),
{
    let u = unbond_of(tn, tl, b);
    if b == 0 {
    } else {
        lemma_muldiv_le(tn, b, tl);
        lemma_muldiv_floor(tn, b, tl);
        if tl - b > 0 {
            assert((tn - u) * tl >= tn * (tl - b)) by (nonlinear_arith) requires u * tl <= tn * b, u <= tn, b <= tl;
            assert(tn - u > 0) by (nonlinear_arith) requires (tn - u) * tl >= tn * (tl - b), tn > 0, tl - b > 0, tl > 0, u <= tn;
            assert((tn - u) * tl < tn * (tl - b) + tl) by (nonlinear_arith) requires tn * b < (u + 1) * tl, u <= tn, b <= tl;
            assert(tn - u <= 100000 * (tl - b)) by (nonlinear_arith)
                requires (tn - u) * tl < tn * (tl - b) + tl, tn <= 1000 * tl, tl - b >= 1, tl > 0, u <= tn, b <= tl;
            assert(tl - b <= 100000 * (tn - u)) by (nonlinear_arith)
                requires (tn - u) * tl >= tn * (tl - b), tl <= 1000 * tn, tn > 0, tl > 0, u <= tn, b <= tl;
        }
    }
}
} // verus!
verus! {
// ------------------------------------------------------------------ sequence lemmas for pagination (C17)
pub proof fn lemma_filter_push<V>(s: Seq<V>, x: V, p: spec_fn(V) -> bool)
    ensures s.push(x).filter(p) == (if p(x) { s.filter(p).push(x) } else { s.filter(p) })
{
    reveal(Seq::filter);
    assert(s.push(x).drop_last() =~= s);
}
/// a filtered prefix is a prefix of the filtered sequence
pub proof fn lemma_filter_take_prefix<V>(s: Seq<V>, n: int, p: spec_fn(V) -> bool)
    requires 0 <= n <= s.len(),
    ensures
        s.take(n).filter(p).len() <= s.filter(p).len(),
        s.filter(p).take(s.take(n).filter(p).len() as int) == s.take(n).filter(p),
{
    assert(s =~= s.take(n) + s.skip(n));
    Seq::<V>::filter_distributes_over_add(s.take(n), s.skip(n), p);
    let a = s.take(n).filter(p); let b = s.skip(n).filter(p);
    assert(s.filter(p) == a + b);
    assert((a + b).take(a.len() as int) =~= a);
}
} // verus!
