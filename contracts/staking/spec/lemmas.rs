verus! {
// ------------------------------------------------------------------ arithmetic lemmas (all proved)
/// staking at a rate within [1/1000, 1000] leaves the rate within [1/1000, 2000]
pub proof fn lemma_stake_rate(tn: nat, tl: nat, x: nat)
    requires
        x > 0,
        tl > 0 ==> tn > 0 && tn <= 1000 * tl && tl <= 1000 * tn,
        tl == 0 ==> tn == 0,
    ensures ({
        let m = mint_of(tn, tl, x);
        &&& m <= 1000 * x
        &&& m > 0 ==> tn + x <= 2000 * (tl + m) && tl + m <= 1000 * (tn + x)
    }),
{
    let m = mint_of(tn, tl, x);
    if tn == 0 {
    } else {
        lemma_muldiv_floor(tl, x, tn);
        lemma_muldiv_bound(tl, x, tn, 1000);
        if m > 0 {
            assert(x <= 1000 * (m + 1)) by (nonlinear_arith) requires tl * x < (m + 1) * tn, tn <= 1000 * tl, tl > 0;
        }
    }
}
/// submitting a batch keeps the remaining rate within [1/100000, 100000] – enough for `rates_pre`
pub proof fn lemma_submit_rate(tn: nat, tl: nat, b: nat)
    requires tl > 0, tn > 0, tn <= 1000 * tl, tl <= 1000 * tn, b <= tl,
    ensures ({
        let u = unbond_of(tn, tl, b);
        &&& u <= tn
        &&& tl - b > 0 ==> tn - u > 0 && tn - u <= 100000 * (tl - b) && tl - b <= 100000 * (tn - u)
    }),
{
    let u = unbond_of(tn, tl, b);
    if b == 0 {
    } else {
        lemma_muldiv_le(tn, b, tl);
        lemma_muldiv_floor(tn, b, tl);
        if tl - b > 0 {
            assert((tn - u) * tl >= tn * (tl - b)) by (nonlinear_arith) requires u * tl <= tn * b, u <= tn, b <= tl;
            assert(tn - u > 0) by (nonlinear_arith) requires (tn - u) * tl >= tn * (tl - b), tn > 0, tl - b > 0, tl > 0, u <= tn;
            assert((tn - u) * tl < tn * (tl - b) + tl) by (nonlinear_arith) requires tn * b < (u + 1) * tl, u <= tn, b <= tl;
            assert(tn - u <= 100000 * (tl - b)) by (nonlinear_arith)
                requires (tn - u) * tl < tn * (tl - b) + tl, tn <= 1000 * tl, tl - b >= 1, tl > 0, u <= tn, b <= tl;
            assert(tl - b <= 100000 * (tn - u)) by (nonlinear_arith)
                requires (tn - u) * tl >= tn * (tl - b), tl <= 1000 * tn, tn > 0, tl > 0, u <= tn, b <= tl;
        }
    }
}
} // verus!
verus! {
// ------------------------------------------------------------------ sequence lemmas for pagination (C17)
pub proof fn lemma_filter_push<V>(s: Seq<V>, x: V, p: spec_fn(V) -> bool)
    ensures s.push(x).filter(p) == (if p(x) { s.filter(p).push(x) } else { s.filter(p) })
{
    reveal(Seq::filter);
    assert(s.push(x).drop_last() =~= s);
}
/// a filtered prefix is a prefix of the filtered sequence
pub proof fn lemma_filter_take_prefix<V>(s: Seq<V>, n: int, p: spec_fn(V) -> bool)
    requires 0 <= n <= s.len(),
    ensures
        s.take(n).filter(p).len() <= s.filter(p).len(),
        s.filter(p).take(s.take(n).filter(p).len() as int) == s.take(n).filter(p),
{
    assert(s =~= s.take(n) + s.skip(n));
    Seq::<V>::filter_distributes_over_add(s.take(n), s.skip(n), p);
    let a = s.take(n).filter(p); let b = s.skip(n).filter(p);
    assert(s.filter(p) == a + b);
    assert((a + b).take(a.len() as int) =~= a);
}
} // verus!
verus! {
pub proof fn lemma_filter_ext<V>(s: Seq<V>, p: spec_fn(V) -> bool, q: spec_fn(V) -> bool)
    requires forall|x: V| #[trigger] p(x) == q(x),
    ensures s.filter(p) == s.filter(q),
    decreases s.len(),
{
    reveal(Seq::filter);
    if s.len() > 0 {
        lemma_filter_ext(s.drop_last(), p, q);
    }
}
pub proof fn lemma_filter_subset<V>(s: Seq<V>, p: spec_fn(V) -> bool)
    ensures forall|j: int| 0 <= j < s.filter(p).len() ==> s.contains(#[trigger] s.filter(p)[j]),
    decreases s.len(),
{
    reveal(Seq::filter);
    if s.len() > 0 {
        let t = s.drop_last();
        lemma_filter_subset(t, p);
        assert forall|j: int| 0 <= j < s.filter(p).len() implies s.contains(#[trigger] s.filter(p)[j]) by {
            if j < t.filter(p).len() {
                assert(t.contains(t.filter(p)[j]));
                let i = choose|i: int| 0 <= i < t.len() && t[i] == t.filter(p)[j];
                assert(s[i] == t[i]);
            } else {
                assert(s[s.len() - 1] == s.last());
            }
        }
    }
}
/// every element of a page is a value of the underlying map
pub proof fn lemma_page_elems<K, V>(m: SMap<u64, V>, items: Seq<StdResult<(K, V)>>, p: spec_fn(V) -> bool, limit: Option<u32>)
    requires
        forall|i: int| 0 <= i < items.len() ==> (#[trigger] items[i]) is Ok && m.contains_value(items[i]->Ok_0.1),
    ensures
        forall|j: int| 0 <= j < page_of_p(items, p, limit).len() ==> m.contains_value(#[trigger] page_of_p(items, p, limit)[j]),
{
    let vals = item_vals(items);
    let fv = vals.filter(p);
    lemma_filter_subset(vals, p);
    assert forall|j: int| 0 <= j < fv.len() implies m.contains_value(#[trigger] fv[j]) by {
        assert(vals.contains(fv[j]));
        let i = choose|i: int| 0 <= i < vals.len() && vals[i] == fv[j];
        assert(vals[i] == items[i]->Ok_0.1);
    }
}
} // verus!

verus! {
/// filtering by a predicate that holds everywhere is the identity
pub proof fn lemma_filter_all<V>(s: Seq<V>, p: spec_fn(V) -> bool)
    requires forall|i: int| 0 <= i < s.len() ==> p(#[trigger] s[i]),
    ensures s.filter(p) == s,
    decreases s.len(),
{
    reveal(Seq::filter);
    if s.len() > 0 {
        lemma_filter_all(s.drop_last(), p);
        assert(s.drop_last().push(s.last()) =~= s);
    }
}
} // verus!

verus! {
/// loading a list of ids and dropping the failures is filtering by membership and reading the map
pub proof fn lemma_load_filter<V>(ids: Seq<u64>, m: Map<u64, V>, loaded: Seq<Result<V, crate::cosmwasm_std::StdError>>)
    requires
        loaded.len() == ids.len(),
        forall|i: int| 0 <= i < ids.len() ==> ((#[trigger] loaded[i]) is Ok <==> m.dom().contains(ids[i])),
        forall|i: int| 0 <= i < ids.len() && (#[trigger] loaded[i]) is Ok ==> loaded[i]->Ok_0 == m[ids[i]],
    ensures
        loaded.map_values(|r: Result<V, crate::cosmwasm_std::StdError>| match r { Ok(b) => Some(b), Err(_) => None::<V> })
            .filter(crate::std_ext::vf_opt_some::<V>()).map_values(crate::std_ext::vf_opt_get::<V>())
          == ids.filter(|id: u64| m.dom().contains(id)).map_values(|id: u64| m[id]),
    decreases ids.len(),
{
    let g = |r: Result<V, crate::cosmwasm_std::StdError>| match r { Ok(b) => Some(b), Err(_) => None::<V> };
    let some = crate::std_ext::vf_opt_some::<V>();
    let get = crate::std_ext::vf_opt_get::<V>();
    let p = |id: u64| m.dom().contains(id);
    let rd = |id: u64| m[id];
    reveal(Seq::filter);
    if ids.len() == 0 {
        assert(loaded.map_values(g).filter(some).map_values(get) =~= Seq::<V>::empty());
        assert(ids.filter(p).map_values(rd) =~= Seq::<V>::empty());
    } else {
        let ids0 = ids.drop_last();
        let l0 = loaded.drop_last();
        lemma_load_filter(ids0, m, l0);
        let mapped = loaded.map_values(g);
        assert(mapped.drop_last() =~= l0.map_values(g));
        assert(mapped.last() == g(loaded.last()));
        let k = ids.len() - 1;
        assert(loaded[k] is Ok <==> m.dom().contains(ids[k]));
        if loaded.last() is Ok {
            assert(mapped.filter(some) == mapped.drop_last().filter(some).push(mapped.last()));
            assert(ids.filter(p) == ids0.filter(p).push(ids.last()));
            assert(mapped.drop_last().filter(some).push(mapped.last()).map_values(get)
                =~= mapped.drop_last().filter(some).map_values(get).push(get(mapped.last())));
            assert(ids0.filter(p).push(ids.last()).map_values(rd) =~= ids0.filter(p).map_values(rd).push(rd(ids.last())));
            assert(loaded[k]->Ok_0 == m[ids[k]]);
        } else {
            assert(mapped.filter(some) == mapped.drop_last().filter(some));
            assert(ids.filter(p) == ids0.filter(p));
        }
    }
}
} // verus!

verus! {
// ------------------------------------------------------------------ C04: no dilution, no rounding profit (all proved)
/// LiquidStake never lowers the redemption rate (staked per LST) of the existing holders:
/// (tn + x) / (tl + m) >= tn / tl, cross-multiplied
// [C04.stake-no-dilution]
pub proof fn lemma_stake_no_dilution(tn: nat, tl: nat, x: nat)
    requires tn > 0, tl > 0,
    ensures (tn + x) * tl >= tn * (tl + mint_of(tn, tl, x)),
{
    let m = mint_of(tn, tl, x);
    lemma_muldiv_floor(tl, x, tn);
    assert((tn + x) * tl >= tn * (tl + m)) by (nonlinear_arith) requires m * tn <= tl * x;
}
/// SubmitBatch never lowers the redemption rate of the holders that remain:
/// (tn - u) / (tl - b) >= tn / tl, cross-multiplied
// [C04.submit-no-dilution]
pub proof fn lemma_submit_no_dilution(tn: nat, tl: nat, b: nat)
    requires tl > 0, b <= tl,
    ensures unbond_of(tn, tl, b) <= tn, (tn - unbond_of(tn, tl, b)) * tl >= tn * (tl - b),
{
    let u = unbond_of(tn, tl, b);
    if b > 0 {
        lemma_muldiv_le(tn, b, tl);
        lemma_muldiv_floor(tn, b, tl);
        assert((tn - u) * tl >= tn * (tl - b)) by (nonlinear_arith) requires u * tl <= tn * b, u <= tn, b <= tl;
    } else {
        assert((tn - 0) * tl >= tn * (tl - 0)) by (nonlinear_arith);
    }
}
/// staking x and immediately unstaking the minted LST never sets aside more than x
// [C04.no-rounding-profit]
pub proof fn lemma_round_trip(tn: nat, tl: nat, x: nat)
    requires x > 0, tl == 0 ==> tn == 0, tl > 0 ==> tn > 0,
    ensures ({
        let m = mint_of(tn, tl, x);
        m > 0 ==> unbond_of(tn + x, tl + m, m) <= x
    }),
{
    let m = mint_of(tn, tl, x);
    if m > 0 {
        let u = unbond_of(tn + x, tl + m, m);
        lemma_muldiv_floor(tn + x, m, tl + m);
        if tn == 0 {
            assert(m == x && tl == 0);
            assert(u * x <= x * x);
            assert(u <= x) by (nonlinear_arith) requires u * x <= x * x, x > 0;
        } else {
            lemma_muldiv_floor(tl, x, tn);
            // (tn + x) * m <= x * (tl + m)  because  tn * m <= tl * x
            assert((tn + x) * m <= x * (tl + m)) by (nonlinear_arith) requires m * tn <= tl * x;
            assert(u <= x) by (nonlinear_arith) requires u * (tl + m) <= (tn + x) * m, (tn + x) * m <= x * (tl + m), tl + m > 0;
        }
    }
}
} // verus!
