verus! {
// ------------------------------------------------------------------ arithmetic lemmas
pub proof fn lemma_ratio_bound(a: nat, b: nat, f: nat, k: nat)
    requires b > 0, a <= k * b,
    ensures (a * f) / b <= k * f,
{
    assert(a * f <= (k * f) * b) by (nonlinear_arith) requires a <= k * b;
    assert((a * f) / b <= k * f) by (nonlinear_arith) requires a * f <= (k * f) * b, b > 0;
}
} // verus!
verus! {
pub proof fn lemma_floor_bounds(a: nat, b: nat)
    requires b > 0,
    ensures (a / b) * b <= a, a < (a / b + 1) * b,
{
    assert((a / b) * b <= a && a < (a / b + 1) * b) by (nonlinear_arith) requires b > 0;
}
/// staking at a rate within [1/1000, 1000] leaves the rate within [1/1000, 2000]
pub proof fn lemma_stake_rate(tn: nat, tl: nat, x: nat)
    requires
        x > 0,
        tl > 0 ==> tn > 0 && tn <= 1000 * tl && tl <= 1000 * tn,
        tl == 0 ==> tn == 0,
    ensures ({
        let m = mint_of(tn, tl, x);
        &&& m <= 1000 * x
        &&& m > 0 ==> tn + x <= 2000 * (tl + m) && tl + m <= 1000 * (tn + x)
    }),
{
    let m = mint_of(tn, tl, x);
    if tn == 0 {
    } else {
        lemma_floor_bounds(tl * x, tn);
        // m*tn <= tl*x < (m+1)*tn
        assert(m * tn <= tl * x);
        assert(tl * x < (m + 1) * tn);
        assert(m <= 1000 * x) by (nonlinear_arith) requires m * tn <= tl * x, tl <= 1000 * tn, tn > 0;
        if m > 0 {
            assert(x <= 1000 * (m + 1)) by (nonlinear_arith) requires tl * x < (m + 1) * tn, tn <= 1000 * tl, tl > 0;
        }
    }
}
} // verus!
verus! {
/// floor(a*b/c) <= a when b <= c
pub proof fn lemma_share_le(a: nat, b: nat, c: nat)
    requires c > 0, b <= c,
    ensures (a * b) / c <= a,
{
    assert(a * b <= a * c) by (nonlinear_arith) requires b <= c;
    assert((a * b) / c <= a) by (nonlinear_arith) requires a * b <= a * c, c > 0;
}
/// submitting a batch keeps the rate within [1/2000, 1000] (for b < tl) – enough for `rates_pre`
pub proof fn lemma_submit_rate(tn: nat, tl: nat, b: nat)
    requires tl > 0, tn > 0, tn <= 1000 * tl, tl <= 1000 * tn, b <= tl,
    ensures ({
        let u = unbond_of(tn, tl, b);
        &&& u <= tn
        &&& tl - b > 0 ==> tn - u > 0 && tn - u <= 100000 * (tl - b) && tl - b <= 100000 * (tn - u)
    }),
{
    let u = unbond_of(tn, tl, b);
    if b == 0 {
    } else {
        lemma_share_le(tn, b, tl);
        lemma_floor_bounds(tn * b, tl);
        assert(u * tl <= tn * b);
        assert(tn * b < (u + 1) * tl);
        if tl - b > 0 {
            // (tn-u)*tl >= tn*(tl-b)  and  (tn-u-1)*tl < tn*(tl-b)
            assert((tn - u) * tl >= tn * (tl - b)) by (nonlinear_arith) requires u * tl <= tn * b, u <= tn, b <= tl;
            assert(tn - u > 0) by (nonlinear_arith) requires (tn - u) * tl >= tn * (tl - b), tn > 0, tl - b > 0, tl > 0, u <= tn;
            assert((tn - u) * tl < tn * (tl - b) + tl) by (nonlinear_arith) requires tn * b < (u + 1) * tl, u <= tn, b <= tl;
            // upper: tn-u <= 100000*(tl-b)
            assert(tn - u <= 100000 * (tl - b)) by (nonlinear_arith)
                requires (tn - u) * tl < tn * (tl - b) + tl, tn <= 1000 * tl, tl - b >= 1, tl > 0, u <= tn, b <= tl;
            assert(tl - b <= 100000 * (tn - u)) by (nonlinear_arith)
                requires (tn - u) * tl >= tn * (tl - b), tl <= 1000 * tn, tn > 0, tl > 0, u <= tn, b <= tl;
        }
    }
}
} // verus!
