verus! {
// ------------------------------------------------------------------ arithmetic lemmas
pub proof fn lemma_ratio_bound(a: nat, b: nat, f: nat, k: nat)
    requires b > 0, a <= k * b,
    ensures (a * f) / b <= k * f,
{
    assert(a * f <= (k * f) * b) by (nonlinear_arith) requires a <= k * b;
    assert((a * f) / b <= k * f) by (nonlinear_arith) requires a * f <= (k * f) * b, b > 0;
}
} // verus!
