verus! {
// =====================================================================================
// C02 (c) / C07: the ledger's "refunded, not yet re-sent" amounts are the stored refundable
// transfer records.  `ref_sum(inflight, d)` folds the amounts of the in-flight records that are
// refundable (AckFailure / TimedOut) and denominated in `d`.  The lemmas say what each kind of
// step does to it: marking a delivered-or-pending record refundable adds its amount (this is the
// moment the environment returns the funds, E4), a reply / success acknowledgement / stray
// callback leaves it alone, a recovery of distinct refundable records of one denom removes
// exactly their total.
// =====================================================================================
pub open spec fn add_ref() -> spec_fn(nat, (u64, nat)) -> nat { |acc: nat, e: (u64, nat)| acc + e.1 }
pub open spec fn ref_entries(m: SMap<u64, IBCTransfer>, d: Seq<char>) -> vstd::iset::ISet<(u64, nat)> {
    vstd::iset::ISet::new(|e: (u64, nat)| m.dom().contains(e.0) && refundable(m[e.0]) && m[e.0].amount.denom@ == d && m[e.0].amount.amount.0 as nat == e.1)
}
pub open spec fn ref_sum(m: SMap<u64, IBCTransfer>, d: Seq<char>) -> nat { ref_entries(m, d).fold(0nat, add_ref()) }
pub open spec fn amt_if(p: IBCTransfer, d: Seq<char>) -> nat { if p.amount.denom@ == d { p.amount.amount.0 as nat } else { 0 } }

/// a record that was not refundable becomes refundable (error acknowledgement or time-out)
// [C02.refund-marks] [C07.refund-marks]
pub proof fn lemma_ref_mark(m: SMap<u64, IBCTransfer>, k: u64, p: IBCTransfer, d: Seq<char>)
    requires ref_entries(m, d).finite(), m.dom().contains(k), !refundable(m[k]), refundable(p), p.amount == m[k].amount,
    ensures ref_sum(m.insert(k, p), d) == ref_sum(m, d) + amt_if(p, d), ref_entries(m.insert(k, p), d).finite(),
{
    if p.amount.denom@ == d {
        assert(ref_entries(m.insert(k, p), d) =~= ref_entries(m, d).insert((k, p.amount.amount.0 as nat)));
        vstd::iset::fold::lemma_fold_insert(ref_entries(m, d), 0nat, add_ref(), (k, p.amount.amount.0 as nat));
    } else {
        assert(ref_entries(m.insert(k, p), d) =~= ref_entries(m, d));
    }
}
/// inserting or removing a record that is not refundable changes nothing
// [C02.refund-frame] [C07.refund-frame]
pub proof fn lemma_ref_frame(m: SMap<u64, IBCTransfer>, k: u64, p: IBCTransfer, d: Seq<char>)
    requires !refundable(p), m.dom().contains(k) ==> !refundable(m[k]),
    ensures ref_entries(m.insert(k, p), d) == ref_entries(m, d), ref_entries(m.remove(k), d) == ref_entries(m, d),
{
    assert(ref_entries(m.insert(k, p), d) =~= ref_entries(m, d));
    assert(ref_entries(m.remove(k), d) =~= ref_entries(m, d));
}
/// removing one refundable record takes its amount out of the sum of its denom only
pub proof fn lemma_ref_remove(m: SMap<u64, IBCTransfer>, k: u64, d: Seq<char>)
    requires ref_entries(m, d).finite(), m.dom().contains(k), refundable(m[k]),
    ensures ref_sum(m.remove(k), d) + amt_if(m[k], d) == ref_sum(m, d), ref_entries(m.remove(k), d).finite(),
{
    if m[k].amount.denom@ == d {
        let e = (k, m[k].amount.amount.0 as nat);
        let rest = ref_entries(m, d).remove(e);
        assert(ref_entries(m, d) =~= rest.insert(e));
        assert(ref_entries(m.remove(k), d) =~= rest);
        vstd::iset::fold::lemma_fold_insert(rest, 0nat, add_ref(), e);
    } else {
        assert(ref_entries(m.remove(k), d) =~= ref_entries(m, d));
    }
}
/// the packets a recovery selects: distinct stored refundable records of one denom
pub open spec fn recoverable(m: SMap<u64, IBCTransfer>, ps: Seq<IBCTransfer>, d: Seq<char>) -> bool {
    &&& forall|i: int| 0 <= i < ps.len() ==> m.dom().contains((#[trigger] ps[i]).sequence) && m[ps[i].sequence] == ps[i] && refundable(ps[i]) && ps[i].amount.denom@ == d
    &&& forall|i: int, j: int| 0 <= i < j < ps.len() ==> (#[trigger] ps[i]).sequence != (#[trigger] ps[j]).sequence
}
/// a recovery removes exactly the total of the selected records from the sum of their denom
// [C02.refund-recovered] [C07.refund-recovered]
pub proof fn lemma_ref_remove_all(m: SMap<u64, IBCTransfer>, ps: Seq<IBCTransfer>, n: int, d: Seq<char>)
    requires ref_entries(m, d).finite(), recoverable(m, ps, d), 0 <= n <= ps.len(),
    ensures
        ref_sum(remove_all(m, ps, n), d) + seq_total(ps.take(n)) == ref_sum(m, d),
        ref_entries(remove_all(m, ps, n), d).finite(),
        forall|i: int| n <= i < ps.len() ==> remove_all(m, ps, n).dom().contains((#[trigger] ps[i]).sequence) && remove_all(m, ps, n)[ps[i].sequence] == ps[i],
    decreases n,
{
    if n == 0 {
        assert(ps.take(0) =~= Seq::<IBCTransfer>::empty());
    } else {
        lemma_ref_remove_all(m, ps, n - 1, d);
        let m1 = remove_all(m, ps, n - 1);
        let k = ps[n - 1].sequence;
        assert(m1.dom().contains(k) && m1[k] == ps[n - 1]);
        lemma_ref_remove(m1, k, d);
        assert(ps.take(n).drop_last() =~= ps.take(n - 1));
        assert(ps.take(n).last() == ps[n - 1]);
        assert forall|i: int| n <= i < ps.len() implies remove_all(m, ps, n).dom().contains((#[trigger] ps[i]).sequence) && remove_all(m, ps, n)[ps[i].sequence] == ps[i] by {
            assert(ps[i].sequence != ps[n - 1].sequence);
        }
    }
}
/// records of another denom are untouched by such a recovery
pub proof fn lemma_ref_remove_all_other(m: SMap<u64, IBCTransfer>, ps: Seq<IBCTransfer>, n: int, d: Seq<char>, d2: Seq<char>)
    requires ref_entries(m, d2).finite(), recoverable(m, ps, d), d != d2, 0 <= n <= ps.len(),
    ensures
        ref_sum(remove_all(m, ps, n), d2) == ref_sum(m, d2), ref_entries(remove_all(m, ps, n), d2).finite(),
        forall|i: int| n <= i < ps.len() ==> remove_all(m, ps, n).dom().contains((#[trigger] ps[i]).sequence) && remove_all(m, ps, n)[ps[i].sequence] == ps[i],
    decreases n,
{
    if n > 0 {
        lemma_ref_remove_all_other(m, ps, n - 1, d, d2);
        let m1 = remove_all(m, ps, n - 1);
        let k = ps[n - 1].sequence;
        assert(m1.dom().contains(k) && m1[k] == ps[n - 1]);
        lemma_ref_remove(m1, k, d2);
        assert forall|i: int| n <= i < ps.len() implies remove_all(m, ps, n).dom().contains((#[trigger] ps[i]).sequence) && remove_all(m, ps, n)[ps[i].sequence] == ps[i] by {
            assert(ps[i].sequence != ps[n - 1].sequence);
        }
    }
}
} // verus!
verus! {
// ------------------------------------------------------------------ histories of the in-flight table
pub open spec fn ibc_d(s: StoreView) -> Seq<char> { cfg(s).protocol_chain_config.ibc_token_denom@ }
pub open spec fn lst_d(s: StoreView) -> Seq<char> { cfg(s).liquid_stake_token_denom@ }
/// the ledger's refunded amounts are the stored refundable records
pub open spec fn inv6(s: StoreView, l: Ledger) -> bool {
    &&& s.config is Some && ibc_d(s) != lst_d(s)
    &&& ref_entries(s.inflight, ibc_d(s)).finite() && ref_entries(s.inflight, lst_d(s)).finite()
    &&& l.refunded == ref_sum(s.inflight, ibc_d(s)) && l.lst_refunded == ref_sum(s.inflight, lst_d(s))
}
pub enum RefEv {
    /// error acknowledgement / time-out of a tracked record that was not refundable yet: the environment returns its funds (E4)
    Marked { seq: u64, p: IBCTransfer },
    /// a recovery of distinct refundable records of one denom
    Recovered { ps: Seq<IBCTransfer>, d: Seq<char> },
    /// anything that leaves the refundable records and the two denoms alone (reply, success / stray acknowledgement, every other handler)
    Quiet,
}
pub open spec fn same_denoms(s0: StoreView, s1: StoreView) -> bool { s1.config is Some && ibc_d(s1) == ibc_d(s0) && lst_d(s1) == lst_d(s0) }
pub open spec fn ref_store(s0: StoreView, e: RefEv, s1: StoreView) -> bool {
    match e {
        RefEv::Marked { seq, p } => s0.inflight.dom().contains(seq) && !refundable(s0.inflight[seq]) && refundable(p) && p.amount == s0.inflight[seq].amount
            && s1.inflight == s0.inflight.insert(seq, p) && same_denoms(s0, s1),
        RefEv::Recovered { ps, d } => recoverable(s0.inflight, ps, d) && (d == ibc_d(s0) || d == lst_d(s0))
            && s1.inflight == remove_all(s0.inflight, ps, ps.len() as int) && same_denoms(s0, s1),
        RefEv::Quiet => same_denoms(s0, s1) && ref_entries(s1.inflight, ibc_d(s0)) == ref_entries(s0.inflight, ibc_d(s0))
            && ref_entries(s1.inflight, lst_d(s0)) == ref_entries(s0.inflight, lst_d(s0)),
    }
}
/// E4 / the re-send: what the step does to the two refunded amounts of the ledger
pub open spec fn ref_led(l: Ledger, s0: StoreView, e: RefEv) -> Ledger {
    match e {
        RefEv::Marked { seq, p } => Ledger { refunded: l.refunded + amt_if(p, ibc_d(s0)), bal: l.bal + amt_if(p, ibc_d(s0)),
            lst_refunded: l.lst_refunded + amt_if(p, lst_d(s0)), lst_bal: l.lst_bal + amt_if(p, lst_d(s0)), ..l },
        RefEv::Recovered { ps, d } => if d == ibc_d(s0) { Ledger { refunded: l.refunded - seq_total(ps), bal: l.bal - seq_total(ps), ..l } }
            else { Ledger { lst_refunded: l.lst_refunded - seq_total(ps), lst_bal: l.lst_bal - seq_total(ps), ..l } },
        RefEv::Quiet => l,
    }
}
// [C02.refund-step] [C07.refund-step]
pub proof fn lemma_refund_step(s0: StoreView, l0: Ledger, e: RefEv, s1: StoreView)
    requires inv6(s0, l0), ref_store(s0, e, s1),
    ensures inv6(s1, ref_led(l0, s0, e)),
{
    match e {
        RefEv::Marked { seq, p } => {
            lemma_ref_mark(s0.inflight, seq, p, ibc_d(s0));
            lemma_ref_mark(s0.inflight, seq, p, lst_d(s0));
        }
        RefEv::Recovered { ps, d } => {
            assert(ps.take(ps.len() as int) =~= ps);
            if d == ibc_d(s0) {
                lemma_ref_remove_all(s0.inflight, ps, ps.len() as int, d);
                lemma_ref_remove_all_other(s0.inflight, ps, ps.len() as int, d, lst_d(s0));
            } else {
                lemma_ref_remove_all(s0.inflight, ps, ps.len() as int, d);
                lemma_ref_remove_all_other(s0.inflight, ps, ps.len() as int, d, ibc_d(s0));
            }
        }
        RefEv::Quiet => { }
    }
}
pub open spec fn ref_history(tr: Seq<(StoreView, Ledger)>, evs: Seq<RefEv>) -> bool {
    &&& tr.len() == evs.len() + 1
    &&& forall|i: int| 0 <= i < evs.len() ==> ref_store((#[trigger] tr[i]).0, evs[i], tr[i + 1].0) && tr[i + 1].1 == ref_led(tr[i].1, tr[i].0, evs[i])
}
/// at every point of every history the ledger's refunded amounts are exactly the stored refundable records
// [C02.refunds-all-histories] [C07.refunds-all-histories]
pub proof fn theorem_refunds(tr: Seq<(StoreView, Ledger)>, evs: Seq<RefEv>)
    requires ref_history(tr, evs), inv6(tr[0].0, tr[0].1),
    ensures forall|i: int| 0 <= i < tr.len() ==> inv6((#[trigger] tr[i]).0, tr[i].1),
    decreases evs.len(),
{
    if evs.len() > 0 {
        let n = evs.len() as int;
        let tr0 = tr.drop_last(); let evs0 = evs.drop_last();
        assert(ref_history(tr0, evs0)) by {
            assert forall|i: int| 0 <= i < evs0.len() implies ref_store((#[trigger] tr0[i]).0, evs0[i], tr0[i + 1].0) && tr0[i + 1].1 == ref_led(tr0[i].1, tr0[i].0, evs0[i]) by {
                assert(tr0[i] == tr[i] && tr0[i + 1] == tr[i + 1] && evs0[i] == evs[i]);
            }
        }
        assert(tr0[0] == tr[0]);
        theorem_refunds(tr0, evs0);
        assert(tr0[n - 1] == tr[n - 1]);
        assert(ref_store(tr[n - 1].0, evs[n - 1], tr[n].0) && tr[n].1 == ref_led(tr[n - 1].1, tr[n - 1].0, evs[n - 1]));
        lemma_refund_step(tr[n - 1].0, tr[n - 1].1, evs[n - 1], tr[n].0);
        assert forall|i: int| 0 <= i < tr.len() implies inv6((#[trigger] tr[i]).0, tr[i].1) by {
            if i < n { assert(tr0[i] == tr[i]); }
        }
    }
}
} // verus!

verus! {
// ------------------------------------------------------------------ link to the code: what `sudo` and `reply` do is one of the events
/// the store effect of a successful `sudo` call - this predicate IS the ensures clause of contract::sudo
pub open spec fn sudo_effect(s0: StoreView, msg: crate::msg::SudoMsg, s1: StoreView) -> bool {
    match msg {
        crate::msg::SudoMsg::IBCLifecycleComplete(crate::msg::IBCLifecycleComplete::IBCAck { channel, sequence, ack, success }) =>
            if channel@ != cfg(s0).protocol_chain_config.ibc_channel_id@ || !s0.inflight.dom().contains(sequence) { s1 == s0 }
            else if success { s1 == (StoreView { inflight: s0.inflight.remove(sequence), ..s0 }) }
            else { s1 == (StoreView { inflight: s0.inflight.insert(sequence, IBCTransfer { status: PacketLifecycleStatus::AckFailure, ..s0.inflight[sequence] }), ..s0 }) },
        crate::msg::SudoMsg::IBCLifecycleComplete(crate::msg::IBCLifecycleComplete::IBCTimeout { channel, sequence }) =>
            if channel@ != cfg(s0).protocol_chain_config.ibc_channel_id@ || !s0.inflight.dom().contains(sequence) { s1 == s0 }
            else { s1 == (StoreView { inflight: s0.inflight.insert(sequence, IBCTransfer { status: PacketLifecycleStatus::TimedOut, ..s0.inflight[sequence] }), ..s0 }) },
    }
}
/// E4 as far as it concerns the order of callbacks: the chain never reports success for a transfer it already refunded
pub open spec fn e4_order(s0: StoreView, msg: crate::msg::SudoMsg) -> bool {
    match msg {
        crate::msg::SudoMsg::IBCLifecycleComplete(crate::msg::IBCLifecycleComplete::IBCAck { channel, sequence, ack, success }) =>
            success && channel@ == cfg(s0).protocol_chain_config.ibc_channel_id@ && s0.inflight.dom().contains(sequence) ==> !refundable(s0.inflight[sequence]),
        _ => true,
    }
}
pub open spec fn ref_ev_of_sudo(s0: StoreView, msg: crate::msg::SudoMsg) -> RefEv {
    match msg {
        crate::msg::SudoMsg::IBCLifecycleComplete(crate::msg::IBCLifecycleComplete::IBCAck { channel, sequence, ack, success }) =>
            if channel@ == cfg(s0).protocol_chain_config.ibc_channel_id@ && s0.inflight.dom().contains(sequence) && !success && !refundable(s0.inflight[sequence]) {
                RefEv::Marked { seq: sequence, p: IBCTransfer { status: PacketLifecycleStatus::AckFailure, ..s0.inflight[sequence] } }
            } else { RefEv::Quiet },
        crate::msg::SudoMsg::IBCLifecycleComplete(crate::msg::IBCLifecycleComplete::IBCTimeout { channel, sequence }) =>
            if channel@ == cfg(s0).protocol_chain_config.ibc_channel_id@ && s0.inflight.dom().contains(sequence) && !refundable(s0.inflight[sequence]) {
                RefEv::Marked { seq: sequence, p: IBCTransfer { status: PacketLifecycleStatus::TimedOut, ..s0.inflight[sequence] } }
            } else { RefEv::Quiet },
    }
}
// [C02.sudo-is-a-refund-step] [C07.sudo-is-a-refund-step]
pub proof fn lemma_sudo_is_ref_step(s0: StoreView, msg: crate::msg::SudoMsg, s1: StoreView)
    requires s0.config is Some, sudo_effect(s0, msg, s1), e4_order(s0, msg),
    ensures ref_store(s0, ref_ev_of_sudo(s0, msg), s1),
{
    let di = ibc_d(s0); let dl = lst_d(s0);
    match msg {
        crate::msg::SudoMsg::IBCLifecycleComplete(crate::msg::IBCLifecycleComplete::IBCAck { channel, sequence, ack, success }) => {
            if channel@ == cfg(s0).protocol_chain_config.ibc_channel_id@ && s0.inflight.dom().contains(sequence) {
                let p0 = s0.inflight[sequence];
                if success {
                    lemma_ref_frame(s0.inflight, sequence, p0, di); lemma_ref_frame(s0.inflight, sequence, p0, dl);
                } else if refundable(p0) {
                    let p = IBCTransfer { status: PacketLifecycleStatus::AckFailure, ..p0 };
                    assert(ref_entries(s0.inflight.insert(sequence, p), di) =~= ref_entries(s0.inflight, di));
                    assert(ref_entries(s0.inflight.insert(sequence, p), dl) =~= ref_entries(s0.inflight, dl));
                }
            }
        }
        crate::msg::SudoMsg::IBCLifecycleComplete(crate::msg::IBCLifecycleComplete::IBCTimeout { channel, sequence }) => {
            if channel@ == cfg(s0).protocol_chain_config.ibc_channel_id@ && s0.inflight.dom().contains(sequence) {
                let p0 = s0.inflight[sequence];
                if refundable(p0) {
                    let p = IBCTransfer { status: PacketLifecycleStatus::TimedOut, ..p0 };
                    assert(ref_entries(s0.inflight.insert(sequence, p), di) =~= ref_entries(s0.inflight, di));
                    assert(ref_entries(s0.inflight.insert(sequence, p), dl) =~= ref_entries(s0.inflight, dl));
                }
            }
        }
    }
}
/// a reply records a new in-flight (not refundable) transfer under its sequence number: Quiet, provided the chain does not
/// reuse the sequence number of a transfer that is still recorded as refundable (E4: sequence numbers are unique per channel)
// [C02.reply-is-a-refund-step] [C07.reply-is-a-refund-step]
pub proof fn lemma_reply_is_ref_step(s0: StoreView, id: u64, seq: u64, s1: StoreView)
    requires
        s0.config is Some, s0.waiting.dom().contains(id),
        s0.inflight.dom().contains(seq) ==> !refundable(s0.inflight[seq]),
        s1 == (StoreView { waiting: s0.waiting.remove(id), inflight: s0.inflight.insert(seq, IBCTransfer { sequence: seq, amount: s0.waiting[id].amount,
                receiver: s0.waiting[id].receiver, status: PacketLifecycleStatus::Sent }), ..s0 }),
    ensures ref_store(s0, RefEv::Quiet, s1),
{
    let p = IBCTransfer { sequence: seq, amount: s0.waiting[id].amount, receiver: s0.waiting[id].receiver, status: PacketLifecycleStatus::Sent };
    lemma_ref_frame(s0.inflight, seq, p, ibc_d(s0));
    lemma_ref_frame(s0.inflight, seq, p, lst_d(s0));
}
/// the store effect of a successful permissionless recovery (the exists-clause of `recover`) is a Recovered event when
/// the selected records are distinct (they are: they come from distinct keys of the in-flight map)
// [C02.recover-is-a-refund-step] [C07.recover-is-a-refund-step]
pub proof fn lemma_recover_is_ref_step(s0: StoreView, ps: Seq<IBCTransfer>, s1: StoreView)
    requires
        s0.config is Some, ps.len() > 0,
        forall|i: int| 0 <= i < ps.len() ==> s0.inflight.dom().contains((#[trigger] ps[i]).sequence) && s0.inflight[ps[i].sequence] == ps[i] && refundable(ps[i])
            && ps[i].amount.denom@ == ps[0].amount.denom@,
        forall|i: int, j: int| 0 <= i < j < ps.len() ==> (#[trigger] ps[i]).sequence != (#[trigger] ps[j]).sequence,
        ps[0].amount.denom@ == ibc_d(s0) || ps[0].amount.denom@ == lst_d(s0),
        s1.inflight == remove_all(s0.inflight, ps, ps.len() as int), same_denoms(s0, s1),
    ensures ref_store(s0, RefEv::Recovered { ps, d: ps[0].amount.denom@ }, s1),
{
}
} // verus!

verus! {
// ------------------------------------------------------------------ the permissionless recovery selects distinct, stored, refundable records
pub open spec fn seq_sorted(s: Seq<IBCTransfer>) -> bool { forall|i: int, j: int| 0 <= i < j < s.len() ==> (#[trigger] s[i]).sequence < (#[trigger] s[j]).sequence }
pub proof fn lemma_filter_sorted(s: Seq<IBCTransfer>, p: spec_fn(IBCTransfer) -> bool)
    requires seq_sorted(s),
    ensures seq_sorted(s.filter(p)), forall|i: int| 0 <= i < s.filter(p).len() ==> p(#[trigger] s.filter(p)[i]) && s.contains(s.filter(p)[i]),
    decreases s.len(),
{
    reveal(Seq::filter);
    if s.len() > 0 {
        let s0 = s.drop_last();
        assert(seq_sorted(s0)) by {
            assert forall|i: int, j: int| 0 <= i < j < s0.len() implies (#[trigger] s0[i]).sequence < (#[trigger] s0[j]).sequence by { assert(s0[i] == s[i] && s0[j] == s[j]); }
        }
        lemma_filter_sorted(s0, p);
        let f0 = s0.filter(p);
        assert forall|i: int| 0 <= i < f0.len() implies (#[trigger] f0[i]).sequence < s.last().sequence && s.contains(f0[i]) by {
            let k = choose|k: int| 0 <= k < s0.len() && s0[k] == f0[i];
            assert(s0[k] == s[k]);
        }
        if p(s.last()) {
            assert(s.filter(p) == f0.push(s.last()));
            assert(s.contains(s.last())) by { assert(s[s.len() - 1] == s.last()); }
        } else {
            assert(s.filter(p) == f0);
        }
    }
}
/// what the permissionless path of `recover` selects is recoverable in the sense of the refund history
// [C02.recover-selects-recoverable] [C07.recover-selects-recoverable]
pub proof fn lemma_unforced_recoverable(s0: StoreView, all: Seq<StdResult<(u64, IBCTransfer)>>, rcv: Seq<char>, lim: Option<u32>)
    requires
        inflight_wf(s0),
        range_of(s0.inflight, None::<Bound<u64>>, None::<Bound<u64>>, Order::Ascending, all),
    ensures ({
        let ps = page_of_p(all, recover_pred(rcv), lim);
        &&& forall|i: int| 0 <= i < ps.len() ==> s0.inflight.dom().contains((#[trigger] ps[i]).sequence) && s0.inflight[ps[i].sequence] == ps[i] && refundable(ps[i])
        &&& forall|i: int, j: int| 0 <= i < j < ps.len() ==> (#[trigger] ps[i]).sequence != (#[trigger] ps[j]).sequence
    }),
{
    let vals = item_vals(all);
    assert(seq_sorted(vals)) by {
        assert forall|i: int, j: int| 0 <= i < j < vals.len() implies (#[trigger] vals[i]).sequence < (#[trigger] vals[j]).sequence by {
            assert(vals[i] == all[i]->Ok_0.1 && vals[j] == all[j]->Ok_0.1);
            assert(s0.inflight.dom().contains(all[i]->Ok_0.0.k64()) && s0.inflight.dom().contains(all[j]->Ok_0.0.k64()));
        }
    }
    let p = recover_pred(rcv);
    lemma_filter_sorted(vals, p);
    let fv = vals.filter(p);
    let ps = page_of_p(all, p, lim);
    assert forall|i: int| 0 <= i < ps.len() implies s0.inflight.dom().contains((#[trigger] ps[i]).sequence) && s0.inflight[ps[i].sequence] == ps[i] && refundable(ps[i]) by {
        assert(ps[i] == fv[i]);
        assert(p(fv[i]) && vals.contains(fv[i]));
        let k = choose|k: int| 0 <= k < vals.len() && vals[k] == fv[i];
        assert(vals[k] == all[k]->Ok_0.1);
        assert(s0.inflight.dom().contains(all[k]->Ok_0.0.k64()));
    }
    assert forall|i: int, j: int| 0 <= i < j < ps.len() implies (#[trigger] ps[i]).sequence != (#[trigger] ps[j]).sequence by {
        assert(ps[i] == fv[i] && ps[j] == fv[j]);
    }
}
} // verus!

verus! {
/// the postcondition of a successful permissionless `recover` (its exists-clause, spelled with the same predicates) is a
/// Recovered event of the refund history, provided the recovered records are in one of the two denoms the contract transfers
// [C02.recover-effect-is-a-refund-step] [C07.recover-effect-is-a-refund-step]
pub proof fn lemma_recover_effect_is_ref_step(s0: StoreView, rcv: Seq<char>, page: bool, ps: Seq<IBCTransfer>, w: SMap<u64, IbcWaitingForReply>, s1: StoreView)
    requires
        s0.config is Some, inflight_wf(s0),
        recover_set(s0, None::<Vec<u64>>, rcv, page, ps), ps.len() > 0,
        forall|i: int| 0 <= i < ps.len() ==> (#[trigger] ps[i]).amount.denom@ == ps[0].amount.denom@,
        ps[0].amount.denom@ == ibc_d(s0) || ps[0].amount.denom@ == lst_d(s0),
        s1 == (StoreView { inflight: remove_all(s0.inflight, ps, ps.len() as int), waiting: w, ..s0 }),
    ensures ref_store(s0, RefEv::Recovered { ps, d: ps[0].amount.denom@ }, s1),
{
    let lim = if page { Some(10u32) } else { None::<u32> };
    let all = choose|all: Seq<StdResult<(u64, IBCTransfer)>>|
        range_of(s0.inflight, None::<Bound<u64>>, None::<Bound<u64>>, Order::Ascending, all) && ps == page_of_p(all, recover_pred(rcv), lim);
    lemma_unforced_recoverable(s0, all, rcv, lim);
}
} // verus!
