pub use crate::state::{Config, State, UnstakeRequest, IbcWaitingForReply, NativeChainConfig, ProtocolChainConfig, ProtocolFeeConfig};
pub use crate::state::ibc::{IBCTransfer, PacketLifecycleStatus};
pub use crate::milky_way::staking::{Batch, BatchStatus};
pub use crate::error::ContractError;
use crate::cw2::ContractVersion;
verus! {

/// Abstract contents of the staking contract's storage.
pub struct StoreView {
    pub config: Option<Config>,
    pub state: Option<State>,
    pub admin: Option<Option<Addr>>,
    pub pending_batch_id: Option<u64>,
    pub batches: SMap<u64, Batch>,
    pub requests: SMap<(u64, String), UnstakeRequest>,
    pub inflight: SMap<u64, IBCTransfer>,
    pub waiting: SMap<u64, IbcWaitingForReply>,
    pub version: Option<ContractVersion>,
}

impl crate::serde::Serialize for Config {
    open spec fn item_get(s: StoreView) -> Option<Self> { s.config }
    open spec fn item_put(s: StoreView, v: Option<Self>) -> StoreView { StoreView { config: v, ..s } }
}
impl crate::serde::Serialize for State {
    open spec fn item_get(s: StoreView) -> Option<Self> { s.state }
    open spec fn item_put(s: StoreView, v: Option<Self>) -> StoreView { StoreView { state: v, ..s } }
}
impl crate::serde::Serialize for u64 {
    open spec fn item_get(s: StoreView) -> Option<Self> { s.pending_batch_id }
    open spec fn item_put(s: StoreView, v: Option<Self>) -> StoreView { StoreView { pending_batch_id: v, ..s } }
}
impl crate::serde::Serialize for Batch {
    open spec fn map_get(s: StoreView) -> SMap<u64, Self> { s.batches }
    open spec fn map_put(s: StoreView, m: SMap<u64, Self>) -> StoreView { StoreView { batches: m, ..s } }
}
impl crate::serde::Serialize for IBCTransfer {
    open spec fn map_get(s: StoreView) -> SMap<u64, Self> { s.inflight }
    open spec fn map_put(s: StoreView, m: SMap<u64, Self>) -> StoreView { StoreView { inflight: m, ..s } }
}
impl crate::serde::Serialize for IbcWaitingForReply {
    open spec fn map_get(s: StoreView) -> SMap<u64, Self> { s.waiting }
    open spec fn map_put(s: StoreView, m: SMap<u64, Self>) -> StoreView { StoreView { waiting: m, ..s } }
}
impl crate::serde::Serialize for UnstakeRequest {
    open spec fn imap_get(s: StoreView) -> SMap<(u64, String), Self> { s.requests }
    open spec fn imap_put(s: StoreView, m: SMap<(u64, String), Self>) -> StoreView { StoreView { requests: m, ..s } }
}

} // verus!
