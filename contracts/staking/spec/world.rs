verus! {
// =====================================================================================
// World layer: step relations (what one successful handler call does to the abstract store
// and which messages it emits), a ghost ledger, invariants and one preservation lemma per
// step kind.  Every handler carries an ensures clause `r is Ok ==> step_<h>(..)` that Verus
// proves on the real code, so the lemmas below talk about the code, not a model of it.
// The ledger update functions encode the environment contract (DESIGN section 4): E1
// atomicity, E2 bank, E3 token factory, E4 ICS-20 refunds.
// =====================================================================================

pub open spec fn tn(s: StoreView) -> int { st(s).total_native_token.0 as int }
pub open spec fn tl(s: StoreView) -> int { st(s).total_liquid_stake_token.0 as int }
pub open spec fn fees(s: StoreView) -> int { st(s).total_fees.0 as int }
pub open spec fn oracle_n(c: Config) -> int { if c.protocol_chain_config.oracle_address is Some { 1 } else { 0 } }
pub open spec fn self_addr(env: Env) -> Seq<char> { env.contract.address.0@ }

pub struct Ledger {
    /// staked asset handed to IBC toward the staker by stakes and (net) rewards
    pub fwd: int,
    /// sum of the expected amounts of all batches submitted so far
    pub set_aside: int,
    /// ownerless stake swept to fees
    pub swept: int,
    /// LST supply (token factory)
    pub supply: int,
    /// the contract's staked-asset balance
    pub bal: int,
    /// received for finished batches and not yet withdrawn
    pub owed_batches: int,
    /// refunded staked-asset transfers not yet re-sent
    pub refunded: int,
    /// the contract's own LST balance (bank / token factory)
    pub lst_bal: int,
    /// refunded outbound LST transfers not yet re-sent
    pub lst_refunded: int,
}

// ------------------------------------------------------------------ invariants
/// C01: reported staked total = forwarded - set aside - swept
pub open spec fn inv1(s: StoreView, l: Ledger) -> bool { s.state is Some && tn(s) + l.set_aside + l.swept == l.fwd }
/// C03: LST supply = reported LST total
pub open spec fn inv3(s: StoreView, l: Ledger) -> bool { s.state is Some && l.supply == tl(s) }
/// C02: balance = owed for finished batches + retained fees + refunded transfers
pub open spec fn inv2(s: StoreView, l: Ledger) -> bool { s.state is Some && l.bal == l.owed_batches + fees(s) + l.refunded }
/// no LST => no staked total (makes the ownerless sweep unreachable without a re-basing resume)
pub open spec fn invz(s: StoreView) -> bool { s.state is Some && (tl(s) == 0 ==> tn(s) == 0) }
/// C06: exactly one pending batch, it has the highest id, ids are their keys
pub open spec fn invb(s: StoreView) -> bool {
    &&& s.pending_batch_id is Some
    &&& s.batches.dom().contains(s.pending_batch_id->Some_0)
    &&& s.batches[s.pending_batch_id->Some_0].status == BatchStatus::Pending
    &&& forall|k: u64| #[trigger] s.batches.dom().contains(k) ==> {
            &&& s.batches[k].id == k
            &&& k <= s.pending_batch_id->Some_0
            &&& k != s.pending_batch_id->Some_0 ==> s.batches[k].status != BatchStatus::Pending
        }
}

// ------------------------------------------------------------------ step relations
pub open spec fn step_stake(s0: StoreView, env: Env, info: MessageInfo, amount: nat, mint_to: Option<String>,
                            flag: Option<bool>, s1: StoreView, ms: Seq<SubMsg>) -> bool {
    let c = cfg(s0); let k = stake_calc(st(s0), amount); let rcpt = stake_recipient(info, mint_to); let n = oracle_n(c);
    &&& s0.config is Some && s0.state is Some && amount > 0 && k.m > 0
    &&& s1.state == Some(stake_state(s0, amount))
    &&& s1 == (StoreView { state: s1.state, waiting: s1.waiting, ..s0 })
    &&& ms.len() == n + 3
    &&& tf_is_mint(ms[0].msg, self_addr(env), c.liquid_stake_token_denom@, k.m, self_addr(env))
    &&& is_transfer_sub(ms[n + 1], default_sub_id(env), s0, env, c.native_chain_config.staker_address.0@,
            c.protocol_chain_config.ibc_token_denom@, amount)
    &&& if deliver_local(c, rcpt, flag) {
            is_osmo_send(ms[n + 2].msg, self_addr(env), rcpt, c.liquid_stake_token_denom@, k.m)
        } else {
            is_transfer_sub(ms[n + 2], default_sub_id(env) + 1, s0, env, rcpt, c.liquid_stake_token_denom@, k.m)
        }
}
pub open spec fn led_stake(l: Ledger, s0: StoreView, amount: nat) -> Ledger {
    let k = stake_calc(st(s0), amount);
    Ledger {
        fwd: l.fwd + amount,                                   // E4: the transfer to the staker
        swept: l.swept + (if k.swept { tn(s0) } else { 0 }),
        supply: l.supply + k.m,                                // E3: mint
        bal: l.bal + amount - amount,                          // E2: funds in, E4: escrowed out
        ..l
    }
}

pub open spec fn step_unstake(s0: StoreView, info: MessageInfo, amount: nat, s1: StoreView, ms: Seq<SubMsg>) -> bool {
    let p = s0.pending_batch_id->Some_0;
    &&& unstake_ok(s0)
    &&& s1 == (StoreView {
            requests: s0.requests.insert((p, info.sender.0), unstake_request_after(s0, info.sender.0, amount)),
            batches: s0.batches.insert(p, unstake_batch_after(s0, info.sender.0, amount)), ..s0 })
    &&& ms.len() == 0
}

pub open spec fn step_submit(s0: StoreView, env: Env, s1: StoreView, ms: Seq<SubMsg>) -> bool {
    let c = cfg(s0); let b = s0.batches[s0.pending_batch_id->Some_0];
    &&& submit_ok(s0, env)
    &&& s1 == submit_store(s0, env)
    &&& ms.len() == 1 + oracle_n(c)
    &&& tf_is_burn(ms[0].msg, self_addr(env), c.liquid_stake_token_denom@, b.batch_total_liquid_stake.0 as nat, self_addr(env))
}
pub open spec fn led_submit(l: Ledger, s0: StoreView) -> Ledger {
    let b = s0.batches[s0.pending_batch_id->Some_0];
    // E3: the burn takes the batch total out of the supply and out of the contract's own LST balance
    Ledger { set_aside: l.set_aside + submit_unbond(s0), supply: l.supply - b.batch_total_liquid_stake.0,
             lst_bal: l.lst_bal - b.batch_total_liquid_stake.0, ..l }
}
/// E2: the unstaker's LST arrives with the message
pub open spec fn led_unstake(l: Ledger, amount: nat) -> Ledger { Ledger { lst_bal: l.lst_bal + amount, ..l } }
/// the LST queued in the pending batch
pub open spec fn pending_total(s: StoreView) -> int { s.batches[s.pending_batch_id->Some_0].batch_total_liquid_stake.0 as int }
/// C03 (second half): the contract holds exactly the LST queued in the pending batch plus refunded LST transfers
pub open spec fn inv3b(s: StoreView, l: Ledger) -> bool { l.lst_bal == pending_total(s) + l.lst_refunded }

pub open spec fn step_withdraw(s0: StoreView, env: Env, info: MessageInfo, batch_id: u64, s1: StoreView, ms: Seq<SubMsg>) -> bool {
    let c = cfg(s0);
    &&& withdraw_ok(s0, info, batch_id)
    &&& s1 == (StoreView { requests: s0.requests.remove((s0.batches[batch_id].id, info.sender.0)), ..s0 })
    &&& ms.len() == 1 + oracle_n(c)
    &&& is_osmo_send(ms[0].msg, self_addr(env), info.sender.0@, c.protocol_chain_config.ibc_token_denom@, withdraw_payout(s0, info, batch_id))
}
pub open spec fn led_withdraw(l: Ledger, s0: StoreView, info: MessageInfo, batch_id: u64) -> Ledger {
    let p = withdraw_payout(s0, info, batch_id);
    Ledger { bal: l.bal - p, owed_batches: l.owed_batches - p, ..l }                  // E2: bank send
}

pub open spec fn reward_coin(s0: StoreView, info: MessageInfo) -> Coin {
    first_coin(info.funds@, cfg(s0).protocol_chain_config.ibc_token_denom@)->Some_0
}
pub open spec fn step_rewards(s0: StoreView, env: Env, info: MessageInfo, s1: StoreView, ms: Seq<SubMsg>) -> bool {
    let c = cfg(s0); let a = reward_coin(s0, info).amount.0 as nat; let fee = reward_fee(c, a); let n = oracle_n(c);
    let t: int = if c.protocol_fee_config.treasury_address is Some { 1 } else { 0 };
    &&& rewards_ok(s0, env, info)
    &&& s1.state == Some(rewards_state(s0, a))
    &&& s1 == (StoreView { state: s1.state, waiting: s1.waiting, ..s0 })
    &&& ms.len() == n + 1 + t
    &&& is_transfer_sub(ms[n], default_sub_id(env), s0, env, c.native_chain_config.staker_address.0@,
            c.protocol_chain_config.ibc_token_denom@, (a - fee) as nat)
    &&& t == 1 ==> is_bank_send(ms[n + 1].msg, c.protocol_fee_config.treasury_address->Some_0.0@,
            c.protocol_chain_config.ibc_token_denom@, fee)
}
pub open spec fn led_rewards(l: Ledger, s0: StoreView, info: MessageInfo) -> Ledger {
    let c = cfg(s0); let a = reward_coin(s0, info).amount.0 as int; let fee = reward_fee(c, a as nat) as int;
    Ledger {
        fwd: l.fwd + (a - fee),
        bal: l.bal + a - (a - fee) - (if c.protocol_fee_config.treasury_address is Some { fee } else { 0 }),
        ..l
    }
}

pub open spec fn step_unstaked(s0: StoreView, env: Env, info: MessageInfo, batch_id: u64, s1: StoreView, ms: Seq<SubMsg>) -> bool {
    let b = s0.batches[batch_id];
    &&& unstaked_ok(s0, env, info, batch_id)
    &&& s1 == (StoreView { batches: s0.batches.insert(b.id, Batch {
            received_native_unstaked: Some(reward_coin(s0, info).amount), status: BatchStatus::Received, next_batch_action_time: None, ..b }), ..s0 })
    &&& ms.len() == 0
}
pub open spec fn led_unstaked(l: Ledger, s0: StoreView, info: MessageInfo) -> Ledger {
    let a = reward_coin(s0, info).amount.0 as int;
    Ledger { bal: l.bal + a, owed_batches: l.owed_batches + a, ..l }                 // E2: funds in
}

pub open spec fn step_fee_withdraw(s0: StoreView, env: Env, amount: nat, s1: StoreView, ms: Seq<SubMsg>) -> bool {
    &&& s0.config is Some && s0.state is Some && fees(s0) >= amount
    &&& cfg(s0).protocol_fee_config.treasury_address is Some
    &&& s1 == (StoreView { state: Some(State { total_fees: Uint128((fees(s0) - amount) as u128), ..st(s0) }), ..s0 })
    &&& ms.len() == 1
    &&& is_osmo_send(ms[0].msg, self_addr(env), cfg(s0).protocol_fee_config.treasury_address->Some_0.0@,
            cfg(s0).protocol_chain_config.ibc_token_denom@, amount)
}

// ------------------------------------------------------------------ preservation lemmas
// [C01.inv-stake] [C03.inv-stake]
pub proof fn lemma_stake_preserves(s0: StoreView, env: Env, info: MessageInfo, amount: nat, mint_to: Option<String>,
        flag: Option<bool>, s1: StoreView, ms: Seq<SubMsg>, l: Ledger)
    requires
        inv1(s0, l), inv3(s0, l), step_stake(s0, env, info, amount, mint_to, flag, s1, ms),
        state_dom(s0), amount <= AMOUNT_MAX(),
    ensures
        inv1(s1, led_stake(l, s0, amount)), inv3(s1, led_stake(l, s0, amount)), invz(s1),
{
    let k = stake_calc(st(s0), amount);
    lemma_stake_rate(k.tn0, st(s0).total_liquid_stake_token.0 as nat, amount);
}

// [C02.inv-stake]
pub proof fn lemma_stake_solvent(s0: StoreView, env: Env, info: MessageInfo, amount: nat, mint_to: Option<String>,
        flag: Option<bool>, s1: StoreView, ms: Seq<SubMsg>, l: Ledger)
    requires
        inv2(s0, l), invz(s0), step_stake(s0, env, info, amount, mint_to, flag, s1, ms),
        state_dom(s0), amount <= AMOUNT_MAX(),
    ensures
        // with `invz` the ownerless sweep cannot fire, so no fee is booked without tokens
        !stake_calc(st(s0), amount).swept,
        inv2(s1, led_stake(l, s0, amount)),
{
}

// [C01.inv-submit] [C03.inv-submit]
pub proof fn lemma_submit_preserves(s0: StoreView, env: Env, s1: StoreView, ms: Seq<SubMsg>, l: Ledger)
    requires inv1(s0, l), inv3(s0, l), invz(s0), step_submit(s0, env, s1, ms), state_dom(s0),
    ensures inv1(s1, led_submit(l, s0)), inv3(s1, led_submit(l, s0)), invz(s1),
{
    let b = s0.batches[s0.pending_batch_id->Some_0].batch_total_liquid_stake.0 as nat;
    let tnn = st(s0).total_native_token.0 as nat; let tll = st(s0).total_liquid_stake_token.0 as nat;
    if b > 0 {
        lemma_muldiv_le(tnn, b, tll);
        if b == tll {
            // complete exit: everything is set aside
            lemma_muldiv_floor(tnn, tll, tll);
            assert(muldiv(tnn, tll, tll) == tnn) by (nonlinear_arith)
                requires muldiv(tnn, tll, tll) * tll <= tnn * tll, tnn * tll < (muldiv(tnn, tll, tll) + 1) * tll, tll > 0;
        }
    }
}

// [C02.inv-submit]
pub proof fn lemma_submit_solvent(s0: StoreView, env: Env, s1: StoreView, ms: Seq<SubMsg>, l: Ledger)
    requires inv2(s0, l), step_submit(s0, env, s1, ms),
    ensures inv2(s1, led_submit(l, s0)),
{
}

// [C01.inv-rewards] [C02.inv-rewards] [C03.inv-rewards]
pub proof fn lemma_rewards_preserves(s0: StoreView, env: Env, info: MessageInfo, s1: StoreView, ms: Seq<SubMsg>, l: Ledger)
    requires
        inv1(s0, l), inv2(s0, l), inv3(s0, l), invz(s0), step_rewards(s0, env, info, s1, ms),
        rewards_dom(s0, env, info),
    ensures
        inv1(s1, led_rewards(l, s0, info)), inv2(s1, led_rewards(l, s0, info)), inv3(s1, led_rewards(l, s0, info)), invz(s1),
        // fee + restaked == reward, exactly
        ({ let a = reward_coin(s0, info).amount.0 as int; let fee = reward_fee(cfg(s0), a as nat) as int; 0 <= fee <= a }),
{
}

// [C02.inv-withdraw] [C01.inv-withdraw]
pub proof fn lemma_withdraw_preserves(s0: StoreView, env: Env, info: MessageInfo, batch_id: u64, s1: StoreView, ms: Seq<SubMsg>, l: Ledger)
    requires inv1(s0, l), inv2(s0, l), inv3(s0, l), step_withdraw(s0, env, info, batch_id, s1, ms),
    ensures inv1(s1, led_withdraw(l, s0, info, batch_id)), inv2(s1, led_withdraw(l, s0, info, batch_id)), inv3(s1, led_withdraw(l, s0, info, batch_id)),
{
}

// [C02.inv-unstaked] [C01.inv-unstaked]
pub proof fn lemma_unstaked_preserves(s0: StoreView, env: Env, info: MessageInfo, batch_id: u64, s1: StoreView, ms: Seq<SubMsg>, l: Ledger)
    requires inv1(s0, l), inv2(s0, l), inv3(s0, l), step_unstaked(s0, env, info, batch_id, s1, ms),
    ensures inv1(s1, led_unstaked(l, s0, info)), inv2(s1, led_unstaked(l, s0, info)), inv3(s1, led_unstaked(l, s0, info)),
{
}

// [C02.inv-fee-withdraw] [C01.inv-fee-withdraw]
pub proof fn lemma_fee_withdraw_preserves(s0: StoreView, env: Env, amount: nat, s1: StoreView, ms: Seq<SubMsg>, l: Ledger)
    requires inv1(s0, l), inv2(s0, l), inv3(s0, l), step_fee_withdraw(s0, env, amount, s1, ms),
    ensures ({
        let l1 = Ledger { bal: l.bal - amount, ..l };            // E2: bank send to the treasury
        inv1(s1, l1) && inv2(s1, l1) && inv3(s1, l1)
    }),
{
}

// [C01.inv-unstake] [C02.inv-unstake] [C03.inv-unstake]
pub proof fn lemma_unstake_preserves(s0: StoreView, info: MessageInfo, amount: nat, s1: StoreView, ms: Seq<SubMsg>, l: Ledger)
    requires inv1(s0, l), inv2(s0, l), inv3(s0, l), invz(s0), step_unstake(s0, info, amount, s1, ms),
    ensures inv1(s1, l), inv2(s1, l), inv3(s1, l), invz(s1),
{
}

/// Any step that leaves `state` alone keeps every accounting invariant (admin handlers,
/// ownership, validator set, config, breaker, reply, acks of LST transfers).
// [C01.inv-frame] [C02.inv-frame] [C03.inv-frame]
pub proof fn lemma_state_frame(s0: StoreView, s1: StoreView, l: Ledger)
    requires inv1(s0, l), inv2(s0, l), inv3(s0, l), invz(s0), s1.state == s0.state,
    ensures inv1(s1, l), inv2(s1, l), inv3(s1, l), invz(s1),
{
}

/// ResumeContract overwrites the totals: the invariants survive when it re-states the current
/// totals; for any other arguments the ledger is re-based to the supplied values (C10).
// [C01.inv-resume] [C03.inv-resume]
pub proof fn lemma_resume(s0: StoreView, s1: StoreView, l: Ledger, ntn: Uint128, ntl: Uint128, nr: Uint128)
    requires
        inv1(s0, l), inv3(s0, l),
        s1.state == Some(State { total_native_token: ntn, total_liquid_stake_token: ntl, total_reward_amount: nr, ..st(s0) }),
    ensures
        ntn == st(s0).total_native_token && ntl == st(s0).total_liquid_stake_token ==> inv1(s1, l) && inv3(s1, l),
        ({ let l1 = Ledger { fwd: ntn.0 as int + l.set_aside + l.swept, supply: ntl.0 as int, ..l }; inv1(s1, l1) && inv3(s1, l1) }),
{
}

// ------------------------------------------------------------------ refunds and recovery (E4)
/// an error acknowledgement / timeout of a tracked staked-asset packet refunds its amount
// [C02.inv-refund]
pub proof fn lemma_refund(s0: StoreView, s1: StoreView, l: Ledger, amt: nat)
    requires inv2(s0, l), s1.state == s0.state,
    ensures inv2(s1, Ledger { bal: l.bal + amt, refunded: l.refunded + amt, ..l }),
{
}
/// a recovery re-sends `seq_total(ps)` of refunded staked asset
// [C02.inv-recover]
pub proof fn lemma_recover(s0: StoreView, s1: StoreView, l: Ledger, ps: Seq<IBCTransfer>)
    requires inv2(s0, l), s1.state == s0.state,
    ensures inv2(s1, Ledger { bal: l.bal - seq_total(ps), refunded: l.refunded - seq_total(ps), ..l }),
{
}

// ------------------------------------------------------------------ C06: batch table
// [C06.inv-submit]
pub proof fn lemma_invb_submit(s0: StoreView, env: Env, s1: StoreView, ms: Seq<SubMsg>)
    requires invb(s0), step_submit(s0, env, s1, ms), s0.pending_batch_id->Some_0 < u64::MAX,
    ensures
        invb(s1),
        s1.pending_batch_id == Some((s0.pending_batch_id->Some_0 + 1) as u64),
        s1.batches[s0.pending_batch_id->Some_0].status == BatchStatus::Submitted,
        // every other batch is untouched (expected amounts recorded earlier never change)
        forall|k: u64| #[trigger] s0.batches.dom().contains(k) && k != s0.pending_batch_id->Some_0 ==> s1.batches[k] == s0.batches[k],
{
    let p = s0.pending_batch_id->Some_0;
    assert(s0.batches[p].id == p);
}
// [C06.inv-unstake]
pub proof fn lemma_invb_unstake(s0: StoreView, info: MessageInfo, amount: nat, s1: StoreView, ms: Seq<SubMsg>)
    requires invb(s0), step_unstake(s0, info, amount, s1, ms),
    ensures invb(s1), forall|k: u64| #[trigger] s0.batches.dom().contains(k) && k != s0.pending_batch_id->Some_0 ==> s1.batches[k] == s0.batches[k],
{
}
// [C06.inv-unstaked]
pub proof fn lemma_invb_unstaked(s0: StoreView, env: Env, info: MessageInfo, batch_id: u64, s1: StoreView, ms: Seq<SubMsg>)
    requires invb(s0), step_unstaked(s0, env, info, batch_id, s1, ms),
    ensures
        invb(s1),
        // Submitted -> Received only, the expected amount is kept
        s0.batches[batch_id].status == BatchStatus::Submitted && s1.batches[batch_id].status == BatchStatus::Received,
        s1.batches[batch_id].expected_native_unstaked == s0.batches[batch_id].expected_native_unstaked,
        forall|k: u64| #[trigger] s0.batches.dom().contains(k) && k != batch_id ==> s1.batches[k] == s0.batches[k],
{
    assert(s0.batches[batch_id].id == batch_id);
}

// ------------------------------------------------------------------ C05: payouts of one batch
pub open spec fn sum_nat(a: Seq<nat>) -> nat decreases a.len() { if a.len() == 0 { 0 } else { sum_nat(a.drop_last()) + a.last() } }
pub open spec fn payouts(r: nat, a: Seq<nat>, t: nat) -> nat
    decreases a.len()
{ if a.len() == 0 { 0 } else { payouts(r, a.drop_last(), t) + muldiv(r, a.last(), t) } }

/// the payouts of a batch never add up to more than was received for it
// [C05.payouts-le-received] [C02.payouts-le-received]
pub proof fn lemma_payouts_le_received(r: nat, a: Seq<nat>, t: nat)
    requires t > 0, sum_nat(a) <= t,
    ensures payouts(r, a, t) <= muldiv(r, sum_nat(a), t), payouts(r, a, t) <= r,
    decreases a.len(),
{
    if a.len() == 0 {
        lemma_muldiv_zero(r, 0, t);
    } else {
        lemma_payouts_le_received(r, a.drop_last(), t);
        lemma_muldiv_superadd(r, sum_nat(a.drop_last()), a.last(), t);
    }
    lemma_muldiv_le(r, sum_nat(a), t);
}
} // verus!

verus! {
// ------------------------------------------------------------------ C03: the contract's own LST balance
// [C03.lst-balance-unstake]
pub proof fn lemma_lst_unstake(s0: StoreView, info: MessageInfo, amount: nat, s1: StoreView, ms: Seq<SubMsg>, l: Ledger)
    requires invb(s0), inv3b(s0, l), step_unstake(s0, info, amount, s1, ms), amount <= AMOUNT_MAX(), pending_total(s0) <= u128::MAX - AMOUNT_MAX(),
    ensures inv3b(s1, led_unstake(l, amount)),
{
}
// [C03.lst-balance-submit]
pub proof fn lemma_lst_submit(s0: StoreView, env: Env, s1: StoreView, ms: Seq<SubMsg>, l: Ledger)
    requires invb(s0), inv3b(s0, l), step_submit(s0, env, s1, ms), s0.pending_batch_id->Some_0 < u64::MAX,
    ensures inv3b(s1, led_submit(l, s0)), pending_total(s1) == 0,
{
    let p = s0.pending_batch_id->Some_0;
    assert(s0.batches[p].id == p);
}
// [C03.lst-balance-unstaked]
pub proof fn lemma_lst_unstaked(s0: StoreView, env: Env, info: MessageInfo, batch_id: u64, s1: StoreView, ms: Seq<SubMsg>, l: Ledger)
    requires invb(s0), inv3b(s0, l), step_unstaked(s0, env, info, batch_id, s1, ms),
    ensures inv3b(s1, led_unstaked(l, s0, info)),
{
    assert(s0.batches[batch_id].id == batch_id);
}
} // verus!

verus! {
// ------------------------------------------------------------------ C06 / C16: what each batch status implies about the record
/// a Submitted batch has its expected amount and its unbonding deadline, a Received batch has the received amount
/// (this is what lets Withdraw and ReceiveUnstakedTokens unwrap those fields)
pub open spec fn inv_status(s: StoreView) -> bool {
    forall|k: u64| #[trigger] s.batches.dom().contains(k) ==> {
        &&& s.batches[k].status == BatchStatus::Submitted ==> s.batches[k].expected_native_unstaked is Some && s.batches[k].next_batch_action_time is Some
        &&& s.batches[k].status == BatchStatus::Received ==> s.batches[k].received_native_unstaked is Some
    }
}
// [C06.status-fields-submit] [C16.status-fields-submit]
pub proof fn lemma_status_submit(s0: StoreView, env: Env, s1: StoreView, ms: Seq<SubMsg>)
    requires invb(s0), inv_status(s0), step_submit(s0, env, s1, ms), s0.pending_batch_id->Some_0 < u64::MAX,
    ensures inv_status(s1),
{
    let p = s0.pending_batch_id->Some_0;
    assert(s0.batches[p].id == p);
    assert forall|k: u64| #[trigger] s1.batches.dom().contains(k) implies {
        &&& s1.batches[k].status == BatchStatus::Submitted ==> s1.batches[k].expected_native_unstaked is Some && s1.batches[k].next_batch_action_time is Some
        &&& s1.batches[k].status == BatchStatus::Received ==> s1.batches[k].received_native_unstaked is Some
    } by {
        if k != p && k != (p + 1) as u64 { assert(s0.batches.dom().contains(k)); }
    }
}
// [C06.status-fields-unstake] [C16.status-fields-unstake]
pub proof fn lemma_status_unstake(s0: StoreView, info: MessageInfo, amount: nat, s1: StoreView, ms: Seq<SubMsg>)
    requires invb(s0), inv_status(s0), step_unstake(s0, info, amount, s1, ms),
    ensures inv_status(s1),
{
    let p = s0.pending_batch_id->Some_0;
    assert forall|k: u64| #[trigger] s1.batches.dom().contains(k) implies {
        &&& s1.batches[k].status == BatchStatus::Submitted ==> s1.batches[k].expected_native_unstaked is Some && s1.batches[k].next_batch_action_time is Some
        &&& s1.batches[k].status == BatchStatus::Received ==> s1.batches[k].received_native_unstaked is Some
    } by {
        assert(s0.batches.dom().contains(k));
    }
}
// [C06.status-fields-unstaked] [C16.status-fields-unstaked]
pub proof fn lemma_status_unstaked(s0: StoreView, env: Env, info: MessageInfo, batch_id: u64, s1: StoreView, ms: Seq<SubMsg>)
    requires invb(s0), inv_status(s0), step_unstaked(s0, env, info, batch_id, s1, ms),
    ensures inv_status(s1),
{
    assert(s0.batches[batch_id].id == batch_id);
    assert forall|k: u64| #[trigger] s1.batches.dom().contains(k) implies {
        &&& s1.batches[k].status == BatchStatus::Submitted ==> s1.batches[k].expected_native_unstaked is Some && s1.batches[k].next_batch_action_time is Some
        &&& s1.batches[k].status == BatchStatus::Received ==> s1.batches[k].received_native_unstaked is Some
    } by {
        assert(s0.batches.dom().contains(k));
    }
}
} // verus!
