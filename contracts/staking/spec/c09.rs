verus! {
// =====================================================================================
// C09, second sentence: distinct (channel, native sender) pairs accepted by configuration
// validation never map to the same ibc-hooks account.  What is specific to this code base is
// proved: the text "<channel>/<sender>" determines both parts because a validated channel
// ("channel-" followed by digits) contains no '/'.  The rest is the injectivity of the three
// encodings in between, stated as explicit hypotheses of the theorem (not axioms): the two
// hashed inputs are not a SHA-256 collision; UTF-8 and bech32/base32 encoding are injective.
// =====================================================================================
pub open spec fn no_slash(c: Seq<char>) -> bool { forall|i: int| 0 <= i < c.len() ==> (#[trigger] c[i]) != '/' }

// [C09.validated-channel-has-no-separator]
pub proof fn lemma_channel_no_slash(c: Seq<char>)
    requires channel_ok(c),
    ensures no_slash(c),
{
    reveal_strlit("channel-");
    assert forall|i: int| 0 <= i < c.len() implies (#[trigger] c[i]) != '/' by {
        if i < 8 {
            assert(c.take(8)[i] == c[i]);
            assert("channel-"@[i] == c[i]);
        } else {
            assert(c.skip(8)[i - 8] == c[i]);
            assert(is_digit(c.skip(8)[i - 8]));
        }
    }
}

// [C09.separator-unique]
pub proof fn lemma_sep_unique(c1: Seq<char>, s1: Seq<char>, c2: Seq<char>, s2: Seq<char>)
    requires no_slash(c1), no_slash(c2), c1 + ("/"@ + s1) == c2 + ("/"@ + s2),
    ensures c1 == c2, s1 == s2,
{
    reveal_strlit("/");
    let a = c1 + ("/"@ + s1); let b = c2 + ("/"@ + s2);
    assert("/"@.len() == 1 && "/"@[0] == '/');
    if c1.len() < c2.len() {
        assert(a[c1.len() as int] == '/');
        assert(b[c1.len() as int] == c2[c1.len() as int]);
        assert(false);
    }
    if c2.len() < c1.len() {
        assert(b[c2.len() as int] == '/');
        assert(a[c2.len() as int] == c1[c2.len() as int]);
        assert(false);
    }
    assert(c1 =~= c2) by {
        assert forall|i: int| 0 <= i < c1.len() implies c1[i] == c2[i] by { assert(a[i] == c1[i] && b[i] == c2[i]); }
    }
    assert(a.len() == b.len());
    assert(a.len() == c1.len() + ("/"@ + s1).len());
    assert(b.len() == c2.len() + ("/"@ + s2).len());
    assert(("/"@ + s1).len() == 1 + s1.len());
    assert(("/"@ + s2).len() == 1 + s2.len());
    assert(s1.len() == s2.len());
    assert(s1 =~= s2) by {
        assert forall|i: int| 0 <= i < s1.len() implies s1[i] == s2[i] by {
            let j = c1.len() + 1 + i;
            assert(a[j] == ("/"@ + s1)[1 + i] && ("/"@ + s1)[1 + i] == s1[i]);
            assert(b[j] == ("/"@ + s2)[1 + i] && ("/"@ + s2)[1 + i] == s2[i]);
        }
    }
}

/// the two inputs are not a SHA-256 collision (a global injectivity hypothesis would be inconsistent: 32-byte outputs)
pub open spec fn no_sha256_collision(x: Seq<u8>, y: Seq<u8>) -> bool { sha256(x) == sha256(y) ==> x == y }
pub open spec fn hooks_preimage(c: Seq<char>, s: Seq<char>) -> Seq<u8> { sha256(ascii_bytes(SENDER_PREFIX_SPEC())) + str_bytes(c + ("/"@ + s)) }
pub open spec fn utf8_injective() -> bool { forall|x: Seq<char>, y: Seq<char>| #[trigger] str_bytes(x) == #[trigger] str_bytes(y) ==> x == y }
pub open spec fn bech32_injective() -> bool {
    &&& forall|x: Seq<u8>, y: Seq<u8>| #[trigger] to_base32_spec(x) == #[trigger] to_base32_spec(y) ==> x == y
    &&& forall|h: Seq<char>, x: Seq<crate::bech32::u5>, y: Seq<crate::bech32::u5>, v: crate::bech32::Variant|
            (#[trigger] bech32_enc(h, x, v)) is Some && bech32_enc(h, x, v) == #[trigger] bech32_enc(h, y, v) ==> x == y
}

/// no other (channel, native sender) pair can impersonate the staker or the reward collector
// [C09.no-collision-relative]
pub proof fn theorem_hooks_sender_injective(p: Seq<char>, c1: Seq<char>, s1: Seq<char>, c2: Seq<char>, s2: Seq<char>)
    requires
        channel_ok(c1), channel_ok(c2),
        no_sha256_collision(hooks_preimage(c1, s1), hooks_preimage(c2, s2)), utf8_injective(), bech32_injective(),
        hooks_sender(p, c1, s1) is Some, hooks_sender(p, c1, s1) == hooks_sender(p, c2, s2),
    ensures c1 == c2, s1 == s2,
{
    let th = ascii_bytes(SENDER_PREFIX_SPEC());
    let d1 = str_bytes(c1 + ("/"@ + s1)); let d2 = str_bytes(c2 + ("/"@ + s2));
    let h1 = address_hash_spec(th, d1); let h2 = address_hash_spec(th, d2);
    assert(to_base32_spec(h1) == to_base32_spec(h2));
    assert(h1 == h2);
    assert(sha256(th) + d1 == sha256(th) + d2);
    assert(d1 =~= d2) by {
        let pre = sha256(th);
        assert(d1.len() == d2.len()) by { assert((pre + d1).len() == (pre + d2).len()); }
        assert forall|i: int| 0 <= i < d1.len() implies d1[i] == d2[i] by {
            assert((pre + d1)[pre.len() + i] == d1[i]);
            assert((pre + d2)[pre.len() + i] == d2[i]);
        }
    }
    assert(c1 + ("/"@ + s1) == c2 + ("/"@ + s2));
    lemma_channel_no_slash(c1);
    lemma_channel_no_slash(c2);
    lemma_sep_unique(c1, s1, c2, s2);
}
} // verus!
