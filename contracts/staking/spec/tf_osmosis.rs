verus! {
// Token-factory message views, Osmosis build (typed osmosis-std messages).
pub open spec fn tf_is_create_denom(m: CosmosMsg, sender: Seq<char>, subdenom: Seq<char>) -> bool {
    &&& m is TfCreateDenom
    &&& m->TfCreateDenom_0.sender@ == sender
    &&& m->TfCreateDenom_0.subdenom@ == subdenom
}
pub open spec fn tf_is_mint(m: CosmosMsg, sender: Seq<char>, denom: Seq<char>, amount: nat, to: Seq<char>) -> bool {
    &&& m is TfMint
    &&& m->TfMint_0.sender@ == sender
    &&& m->TfMint_0.amount is Some
    &&& m->TfMint_0.amount->Some_0.denom@ == denom
    &&& m->TfMint_0.amount->Some_0.amount@ == dec(amount)
    &&& m->TfMint_0.mint_to_address@ == to
}
pub open spec fn tf_is_burn(m: CosmosMsg, sender: Seq<char>, denom: Seq<char>, amount: nat, from: Seq<char>) -> bool {
    &&& m is TfBurn
    &&& m->TfBurn_0.sender@ == sender
    &&& m->TfBurn_0.amount is Some
    &&& m->TfBurn_0.amount->Some_0.denom@ == denom
    &&& m->TfBurn_0.amount->Some_0.amount@ == dec(amount)
    &&& m->TfBurn_0.burn_from_address@ == from
}
} // verus!
