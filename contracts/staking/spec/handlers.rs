verus! {
// ------------------------------------------------------------------ LiquidStake
pub struct StakeCalc { pub swept: bool, pub tn0: nat, pub fees1: nat, pub m: nat }
pub open spec fn stake_calc(s: State, amount: nat) -> StakeCalc {
    let swept = s.total_liquid_stake_token.0 == 0 && s.total_native_token.0 != 0;
    let tn0 = if swept { 0 } else { s.total_native_token.0 as nat };
    let fees1 = if swept { (s.total_fees.0 + s.total_native_token.0) as nat } else { s.total_fees.0 as nat };
    StakeCalc { swept, tn0, fees1, m: mint_of(tn0, s.total_liquid_stake_token.0 as nat, amount) }
}
/// recipient string and its classification (true = delivered on the protocol chain)
pub open spec fn stake_recipient(info: MessageInfo, mint_to: Option<String>) -> Seq<char> {
    match mint_to { Some(a) => a@, None => info.sender.0@ }
}
pub open spec fn recipient_is_native(c: Config, rcpt: Seq<char>) -> bool {
    bech32_hrp(rcpt) == Some(c.native_chain_config.account_address_prefix@)
}
pub open spec fn recipient_is_protocol(c: Config, rcpt: Seq<char>) -> bool {
    bech32_hrp(rcpt) == Some(c.protocol_chain_config.account_address_prefix@)
}
/// true: bank send on the protocol chain; false: IBC transfer to the native chain
pub open spec fn deliver_local(c: Config, rcpt: Seq<char>, flag: Option<bool>) -> bool {
    if recipient_is_native(c, rcpt) && recipient_is_protocol(c, rcpt) {
        !(flag is Some && flag->Some_0)
    } else { recipient_is_protocol(c, rcpt) }
}
pub open spec fn stake_ok(s0: StoreView, env: Env, info: MessageInfo, amount: nat, mint_to: Option<String>,
                          flag: Option<bool>, expected: Option<Uint128>) -> bool {
    let c = cfg(s0);
    let rcpt = stake_recipient(info, mint_to);
    let k = stake_calc(st(s0), amount);
    let id0 = default_sub_id(env);
    &&& s0.config is Some && !c.stopped
    &&& mint_to is None ==> str_byte_len(info.sender.0@) - str_byte_len(c.protocol_chain_config.account_address_prefix@) == 39
    &&& recipient_is_native(c, rcpt) || recipient_is_protocol(c, rcpt)
    &&& s0.state is Some
    &&& amount >= c.protocol_chain_config.minimum_liquid_stake_amount.0
    &&& k.m != 0
    &&& expected is Some ==> k.m >= expected->Some_0.0
    &&& c.protocol_chain_config.ibc_channel_id@.len() > 0
    &&& !s0.waiting.dom().contains(id0 as u64)
    &&& !deliver_local(c, rcpt, flag) ==> !s0.waiting.dom().contains((id0 + 1) as u64)
}
pub open spec fn stake_state(s0: StoreView, amount: nat) -> State {
    let k = stake_calc(st(s0), amount);
    State {
        total_native_token: Uint128((k.tn0 + amount) as u128),
        total_liquid_stake_token: Uint128((st(s0).total_liquid_stake_token.0 + k.m) as u128),
        total_fees: Uint128(k.fees1 as u128),
        ..st(s0)
    }
}
/// DOM for LiquidStake (C16)
pub open spec fn stake_dom(s0: StoreView, env: Env, info: MessageInfo, amount: nat) -> bool {
    &&& env_ok(env)
    &&& s0.state is Some ==> state_dom(s0)
    &&& 0 < amount <= AMOUNT_MAX()
    &&& s0.config is Some ==> bech32_hrp(info.sender.0@) == Some(cfg(s0).protocol_chain_config.account_address_prefix@)
}
} // verus!
verus! {
// ------------------------------------------------------------------ reachable-state facts used as preconditions (C16 DOM)
/// Well-formedness of the batch table (proved inductive by the C06/C05 lemmas in `world`).
pub open spec fn batches_wf(s: StoreView) -> bool {
    &&& s.pending_batch_id is Some ==> s.batches.dom().contains(s.pending_batch_id->Some_0)
    &&& forall|k: u64| #[trigger] s.batches.dom().contains(k) ==> {
            let b = s.batches[k];
            &&& b.id == k
            &&& b.id < 0x8000_0000_0000_0000
            &&& b.batch_total_liquid_stake.0 <= AMOUNT_MAX()
            &&& b.status == BatchStatus::Received ==> b.received_native_unstaked is Some && b.received_native_unstaked->Some_0.0 <= AMOUNT_MAX()
            &&& b.unstake_requests_count is Some ==> b.unstake_requests_count->Some_0 < 0x8000_0000_0000_0000
        }
    &&& forall|k: (u64, String)| #[trigger] s.requests.dom().contains(k) ==> {
            &&& s.batches.dom().contains(k.0)
            &&& s.requests[k].amount.0 <= s.batches[k.0].batch_total_liquid_stake.0
            &&& s.requests[k].amount.0 > 0
        }
}

// ------------------------------------------------------------------ LiquidUnstake
pub open spec fn unstake_dom(s0: StoreView, amount: nat) -> bool {
    batches_wf(s0) && 0 < amount <= AMOUNT_MAX()
}
pub open spec fn unstake_ok(s0: StoreView) -> bool {
    s0.config is Some && !cfg(s0).stopped && s0.state is Some && s0.pending_batch_id is Some
}
pub open spec fn unstake_request_after(s0: StoreView, sender: String, amount: nat) -> UnstakeRequest {
    let p = s0.pending_batch_id->Some_0;
    if s0.requests.dom().contains((p, sender)) {
        let r = s0.requests[(p, sender)];
        UnstakeRequest { batch_id: r.batch_id, user: r.user, amount: Uint128((r.amount.0 + amount) as u128) }
    } else {
        UnstakeRequest { batch_id: p, user: sender, amount: Uint128(amount as u128) }
    }
}
pub open spec fn unstake_batch_after(s0: StoreView, sender: String, amount: nat) -> Batch {
    let p = s0.pending_batch_id->Some_0;
    let b = s0.batches[p];
    let is_new = !s0.requests.dom().contains((p, sender));
    Batch {
        batch_total_liquid_stake: Uint128((b.batch_total_liquid_stake.0 + amount) as u128),
        unstake_requests_count: if is_new {
            Some(((match b.unstake_requests_count { Some(c) => c, None => 0u64 }) + 1) as u64)
        } else { b.unstake_requests_count },
        ..b
    }
}
} // verus!
verus! {
// ------------------------------------------------------------------ SubmitBatch
pub open spec fn has_request_in(s: StoreView, batch: u64) -> bool {
    exists|u: String| #[trigger] s.requests.dom().contains((batch, u))
}
pub open spec fn submit_ok(s0: StoreView, env: Env) -> bool {
    &&& s0.config is Some && !cfg(s0).stopped
    &&& s0.pending_batch_id is Some && s0.batches.dom().contains(s0.pending_batch_id->Some_0)
    &&& ({ let b = s0.batches[s0.pending_batch_id->Some_0];
        &&& b.next_batch_action_time is Some && now_s(env) >= b.next_batch_action_time->Some_0
        &&& has_request_in(s0, s0.pending_batch_id->Some_0)
        &&& s0.state is Some
        &&& st(s0).total_liquid_stake_token.0 >= b.batch_total_liquid_stake.0 })
    &&& !period_overflow(s0, env)
}
pub open spec fn submit_unbond(s0: StoreView) -> nat {
    let b = s0.batches[s0.pending_batch_id->Some_0];
    unbond_of(st(s0).total_native_token.0 as nat, st(s0).total_liquid_stake_token.0 as nat, b.batch_total_liquid_stake.0 as nat)
}
pub open spec fn submit_store(s0: StoreView, env: Env) -> StoreView {
    let p = s0.pending_batch_id->Some_0;
    let b = s0.batches[p];
    let u = submit_unbond(s0);
    let nb = Batch { id: (b.id + 1) as u64, batch_total_liquid_stake: Uint128(0),
        next_batch_action_time: Some((now_s(env) + cfg(s0).batch_period) as u64),
        status: BatchStatus::Pending, expected_native_unstaked: None, received_native_unstaked: None,
        liquid_unstake_requests: None, unstake_requests_count: Some(0) };
    let ob = Batch { expected_native_unstaked: Some(Uint128(u as u128)), status: BatchStatus::Submitted,
        next_batch_action_time: Some((now_s(env) + cfg(s0).native_chain_config.unbonding_period) as u64), ..b };
    StoreView {
        batches: s0.batches.insert(nb.id, nb).insert(b.id, ob),
        pending_batch_id: Some(nb.id),
        state: Some(State {
            total_native_token: Uint128((st(s0).total_native_token.0 - u) as u128),
            total_liquid_stake_token: Uint128((st(s0).total_liquid_stake_token.0 - b.batch_total_liquid_stake.0) as u128),
            ..st(s0) }),
        ..s0 }
}
/// D9 region: the unvalidated periods overflow the u64 second counter
pub open spec fn period_overflow(s0: StoreView, env: Env) -> bool {
    s0.config is Some && (now_s(env) + cfg(s0).batch_period > u64::MAX
        || now_s(env) + cfg(s0).native_chain_config.unbonding_period > u64::MAX)
}
pub open spec fn submit_dom(s0: StoreView, env: Env) -> bool {
    &&& env_ok(env)
    &&& batches_wf(s0)
    &&& s0.state is Some ==> state_dom(s0)
}

// ------------------------------------------------------------------ Withdraw
pub open spec fn withdraw_ok(s0: StoreView, info: MessageInfo, batch_id: u64) -> bool {
    &&& s0.config is Some && !cfg(s0).stopped
    &&& s0.batches.dom().contains(batch_id)
    &&& s0.batches[batch_id].status == BatchStatus::Received
    &&& s0.requests.dom().contains((s0.batches[batch_id].id, info.sender.0))
}
pub open spec fn withdraw_payout(s0: StoreView, info: MessageInfo, batch_id: u64) -> nat {
    let b = s0.batches[batch_id];
    muldiv(b.received_native_unstaked->Some_0.0 as nat, s0.requests[(b.id, info.sender.0)].amount.0 as nat,
        b.batch_total_liquid_stake.0 as nat)
}
pub open spec fn withdraw_dom(s0: StoreView) -> bool {
    &&& batches_wf(s0)
    &&& s0.state is Some && state_dom(s0)
}
} // verus!
verus! {
// ------------------------------------------------------------------ ReceiveRewards
pub open spec fn reward_fee(c: Config, amount: nat) -> nat {
    muldiv(c.protocol_fee_config.dao_treasury_fee.0 as nat, amount, 100000)
}
pub open spec fn rewards_ok(s0: StoreView, env: Env, info: MessageInfo) -> bool {
    let c = cfg(s0);
    let coin = first_coin(info.funds@, c.protocol_chain_config.ibc_token_denom@);
    &&& s0.config is Some && s0.state is Some && !c.stopped
    &&& st(s0).total_liquid_stake_token.0 != 0
    &&& hooks_account(c, c.native_chain_config.reward_collector_address) == Some(info.sender.0@)
    &&& coin is Some
    &&& reward_fee(c, coin->Some_0.amount.0 as nat) <= coin->Some_0.amount.0   // in particular it fits in 128 bits
    &&& c.protocol_chain_config.ibc_channel_id@.len() > 0
    &&& !s0.waiting.dom().contains(default_sub_id(env) as u64)
}
pub open spec fn rewards_state(s0: StoreView, amount: nat) -> State {
    let c = cfg(s0); let fee = reward_fee(c, amount);
    State {
        total_native_token: Uint128((st(s0).total_native_token.0 + (amount - fee)) as u128),
        total_reward_amount: Uint128((st(s0).total_reward_amount.0 + amount) as u128),
        total_fees: if c.protocol_fee_config.treasury_address is None { Uint128((st(s0).total_fees.0 + fee) as u128) } else { st(s0).total_fees },
        ..st(s0)
    }
}
pub open spec fn rewards_dom(s0: StoreView, env: Env, info: MessageInfo) -> bool {
    &&& env_ok(env)
    &&& s0.state is Some ==> state_dom(s0)
    &&& s0.config is Some && s0.state is Some ==> ({
            let coin = first_coin(info.funds@, cfg(s0).protocol_chain_config.ibc_token_denom@);
            coin is Some ==> {
                &&& coin->Some_0.amount.0 <= AMOUNT_MAX()
                // the exchange rate stays within the DOM range after the payment (only meaningful while LST exists)
                &&& st(s0).total_liquid_stake_token.0 > 0 ==>
                        st(s0).total_native_token.0 + coin->Some_0.amount.0 <= 1000 * st(s0).total_liquid_stake_token.0
            }
        })
}
/// D12 region: the unvalidated fee rate overflows 128 bits
pub open spec fn fee_overflow(s0: StoreView, info: MessageInfo) -> bool {
    s0.config is Some && ({
        let coin = first_coin(info.funds@, cfg(s0).protocol_chain_config.ibc_token_denom@);
        coin is Some && reward_fee(cfg(s0), coin->Some_0.amount.0 as nat) > u128::MAX })
}

// ------------------------------------------------------------------ ReceiveUnstakedTokens
pub open spec fn unstaked_ok(s0: StoreView, env: Env, info: MessageInfo, batch_id: u64) -> bool {
    let c = cfg(s0);
    &&& s0.config is Some && !c.stopped
    &&& hooks_account(c, c.native_chain_config.staker_address) == Some(info.sender.0@)
    &&& first_coin(info.funds@, c.protocol_chain_config.ibc_token_denom@) is Some
    &&& s0.batches.dom().contains(batch_id)
    &&& s0.batches[batch_id].status == BatchStatus::Submitted
    &&& s0.batches[batch_id].next_batch_action_time is Some
    &&& s0.batches[batch_id].next_batch_action_time->Some_0 <= now_s(env)
}
} // verus!
