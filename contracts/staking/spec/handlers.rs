verus! {
// ------------------------------------------------------------------ LiquidStake
pub struct StakeCalc { pub swept: bool, pub tn0: nat, pub fees1: nat, pub m: nat }
pub open spec fn stake_calc(s: State, amount: nat) -> StakeCalc {
    let swept = s.total_liquid_stake_token.0 == 0 && s.total_native_token.0 != 0;
    let tn0 = if swept { 0 } else { s.total_native_token.0 as nat };
    let fees1 = if swept { (s.total_fees.0 + s.total_native_token.0) as nat } else { s.total_fees.0 as nat };
    StakeCalc { swept, tn0, fees1, m: mint_of(tn0, s.total_liquid_stake_token.0 as nat, amount) }
}
/// recipient string and its classification (true = delivered on the protocol chain)
pub open spec fn stake_recipient(info: MessageInfo, mint_to: Option<String>) -> Seq<char> {
    match mint_to { Some(a) => a@, None => info.sender.0@ }
}
pub open spec fn recipient_is_native(c: Config, rcpt: Seq<char>) -> bool {
    bech32_hrp(rcpt) == Some(c.native_chain_config.account_address_prefix@)
}
pub open spec fn recipient_is_protocol(c: Config, rcpt: Seq<char>) -> bool {
    bech32_hrp(rcpt) == Some(c.protocol_chain_config.account_address_prefix@)
}
/// true: bank send on the protocol chain; false: IBC transfer to the native chain
pub open spec fn deliver_local(c: Config, rcpt: Seq<char>, flag: Option<bool>) -> bool {
    if recipient_is_native(c, rcpt) && recipient_is_protocol(c, rcpt) {
        !(flag is Some && flag->Some_0)
    } else { recipient_is_protocol(c, rcpt) }
}
pub open spec fn stake_ok(s0: StoreView, env: Env, info: MessageInfo, amount: nat, mint_to: Option<String>,
                          flag: Option<bool>, expected: Option<Uint128>) -> bool {
    let c = cfg(s0);
    let rcpt = stake_recipient(info, mint_to);
    let k = stake_calc(st(s0), amount);
    let id0 = default_sub_id(env);
    &&& s0.config is Some && !c.stopped
    &&& mint_to is None ==> str_byte_len(info.sender.0@) - str_byte_len(c.protocol_chain_config.account_address_prefix@) == 39
    &&& recipient_is_native(c, rcpt) || recipient_is_protocol(c, rcpt)
    &&& s0.state is Some
    &&& amount >= c.protocol_chain_config.minimum_liquid_stake_amount.0
    &&& k.m != 0
    &&& expected is Some ==> k.m >= expected->Some_0.0
    &&& c.protocol_chain_config.ibc_channel_id@.len() > 0
    &&& !s0.waiting.dom().contains(id0 as u64)
    &&& !deliver_local(c, rcpt, flag) ==> !s0.waiting.dom().contains((id0 + 1) as u64)
}
pub open spec fn stake_state(s0: StoreView, amount: nat) -> State {
    let k = stake_calc(st(s0), amount);
    State {
        total_native_token: Uint128((k.tn0 + amount) as u128),
        total_liquid_stake_token: Uint128((st(s0).total_liquid_stake_token.0 + k.m) as u128),
        total_fees: Uint128(k.fees1 as u128),
        ..st(s0)
    }
}
/// DOM for LiquidStake (C16)
pub open spec fn stake_dom(s0: StoreView, env: Env, info: MessageInfo, amount: nat) -> bool {
    &&& env_ok(env)
    &&& s0.state is Some ==> state_dom(s0)
    &&& 0 < amount <= AMOUNT_MAX()
    &&& s0.config is Some ==> bech32_hrp(info.sender.0@) == Some(cfg(s0).protocol_chain_config.account_address_prefix@)
}
} // verus!
