#!/bin/bash
# Builds the framework from files on disk only (offline).
set -e
cd "$(dirname "$0")"
export CARGO_NET_OFFLINE=true
CARGO_TARGET_DIR=/verif/target cargo build --release --offline --manifest-path tools/vx/Cargo.toml
