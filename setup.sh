#!/bin/bash
# Builds the framework from files on disk only (offline).
set -e
cd "$(dirname "$0")"
export CARGO_NET_OFFLINE=true
CARGO_TARGET_DIR=/verif/target cargo build --release --offline --manifest-path tools/vx/Cargo.toml
# witness-search driver (replay/): pre-build against /repo so that a violation does not pay the cold build
python3 -c "
import sys; sys.path.insert(0, '.')
from vf import mirrors
try:
    print('replay driver:', mirrors.build())
    print('replay driver (miniwasm build):', mirrors.build(features=('miniwasm',)))
except Exception as e:
    print('replay driver not built (checks still decide; violations then end no-failing-input-found):', str(e)[-300:])
"
