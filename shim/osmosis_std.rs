// osmosis-std 0.25.0 message structs (field-for-field) and their `From<..> for CosmosMsg`.
pub mod types {
    pub mod cosmos {
        pub mod base { pub mod v1beta1 {
            use vstd::prelude::*;
            use vstd::std_specs::convert::FromSpecImpl;
            verus! {
            #[derive(Debug)]
            pub struct Coin { pub denom: String, pub amount: String }
            /// osmosis-std: `impl From<cosmwasm_std::Coin> for Coin` – amount rendered in decimal
            impl FromSpecImpl<crate::cosmwasm_std::Coin> for Coin {
                open spec fn obeys_from_spec() -> bool { false }
                open spec fn from_spec(c: crate::cosmwasm_std::Coin) -> Self { arbitrary() }
            }
            impl From<crate::cosmwasm_std::Coin> for Coin {
                #[verifier::external_body]
                fn from(c: crate::cosmwasm_std::Coin) -> (r: Self)
                    ensures r.denom == c.denom, r.amount@ == crate::std_ext::dec(c.amount.0 as nat)
                { unimplemented!() }
            }
            }
        } }
        pub mod bank { pub mod v1beta1 {
            use vstd::prelude::*;
            use vstd::std_specs::convert::FromSpecImpl;
            use crate::cosmwasm_std::{CosmosMsg, IntoCosmos};
            use super::super::base::v1beta1::Coin;
            verus! {
            #[derive(Debug)]
            pub struct MsgSend { pub from_address: String, pub to_address: String, pub amount: Vec<Coin> }
            impl IntoCosmos for MsgSend { open spec fn cm(self) -> CosmosMsg { CosmosMsg::OsmoSend(self) } }
            impl FromSpecImpl<MsgSend> for CosmosMsg {
                open spec fn obeys_from_spec() -> bool { true }
                open spec fn from_spec(m: MsgSend) -> Self { CosmosMsg::OsmoSend(m) }
            }
            impl From<MsgSend> for CosmosMsg { fn from(m: MsgSend) -> (r: Self) { CosmosMsg::OsmoSend(m) } }
            }
        } }
    }
    pub mod cosmwasm { pub mod wasm { pub mod v1 {
        use vstd::prelude::*;
        use vstd::std_specs::convert::FromSpecImpl;
        use crate::cosmwasm_std::{CosmosMsg, IntoCosmos};
        use super::super::super::cosmos::base::v1beta1::Coin;
        verus! {
        #[derive(Debug)]
        pub struct MsgExecuteContract { pub sender: String, pub contract: String, pub msg: Vec<u8>, pub funds: Vec<Coin> }
        impl IntoCosmos for MsgExecuteContract { open spec fn cm(self) -> CosmosMsg { CosmosMsg::OsmoExec(self) } }
        impl FromSpecImpl<MsgExecuteContract> for CosmosMsg {
            open spec fn obeys_from_spec() -> bool { true }
            open spec fn from_spec(m: MsgExecuteContract) -> Self { CosmosMsg::OsmoExec(m) }
        }
        impl From<MsgExecuteContract> for CosmosMsg { fn from(m: MsgExecuteContract) -> (r: Self) { CosmosMsg::OsmoExec(m) } }
        }
    } } }
    pub mod ibc { pub mod applications { pub mod transfer { pub mod v1 {
        use vstd::prelude::*;
        use vstd::std_specs::convert::FromSpecImpl;
        use crate::cosmwasm_std::{CosmosMsg, IntoCosmos};
        use super::super::super::super::cosmos::base::v1beta1::Coin;
        verus! {
        #[derive(Debug)]
        pub struct Height { pub revision_number: u64, pub revision_height: u64 }
        #[derive(Debug)]
        pub struct MsgTransfer {
            pub source_port: String, pub source_channel: String, pub token: Option<Coin>,
            pub sender: String, pub receiver: String, pub timeout_height: Option<Height>,
            pub timeout_timestamp: u64, pub memo: String,
        }
        impl IntoCosmos for MsgTransfer { open spec fn cm(self) -> CosmosMsg { CosmosMsg::OsmoTransfer(self) } }
        impl FromSpecImpl<MsgTransfer> for CosmosMsg {
            open spec fn obeys_from_spec() -> bool { true }
            open spec fn from_spec(m: MsgTransfer) -> Self { CosmosMsg::OsmoTransfer(m) }
        }
        impl From<MsgTransfer> for CosmosMsg { fn from(m: MsgTransfer) -> (r: Self) { CosmosMsg::OsmoTransfer(m) } }

        #[derive(Debug)]
        pub struct MsgTransferResponse { pub sequence: u64 }
        /// prost decoding of the reply data: partial, result otherwise unconstrained.
        pub uninterp spec fn transfer_response_decode(b: Seq<u8>) -> Option<u64>;
        #[derive(Debug)]
        pub struct DecodeError { pub dummy: u8 }
        impl MsgTransferResponse {
            #[verifier::external_body]
            pub fn decode(b: &[u8]) -> (r: Result<MsgTransferResponse, DecodeError>)
                ensures
                    r is Ok <==> transfer_response_decode(b@) is Some,
                    r is Ok ==> r->Ok_0.sequence == transfer_response_decode(b@)->Some_0,
            { unimplemented!() }
        }
        }
    } } } }
    pub mod osmosis {
        pub mod tokenfactory { pub mod v1beta1 {
            use vstd::prelude::*;
            use vstd::std_specs::convert::FromSpecImpl;
            use crate::cosmwasm_std::{CosmosMsg, IntoCosmos};
            use super::super::super::cosmos::base::v1beta1::Coin;
            verus! {
            #[derive(Debug)]
            pub struct MsgCreateDenom { pub sender: String, pub subdenom: String }
            #[derive(Debug)]
            pub struct MsgMint { pub sender: String, pub amount: Option<Coin>, pub mint_to_address: String }
            #[derive(Debug)]
            pub struct MsgBurn { pub sender: String, pub amount: Option<Coin>, pub burn_from_address: String }
            impl FromSpecImpl<MsgCreateDenom> for CosmosMsg {
                open spec fn obeys_from_spec() -> bool { true }
                open spec fn from_spec(m: MsgCreateDenom) -> Self { CosmosMsg::TfCreateDenom(m) }
            }
            impl From<MsgCreateDenom> for CosmosMsg { fn from(m: MsgCreateDenom) -> (r: Self) { CosmosMsg::TfCreateDenom(m) } }
            impl FromSpecImpl<MsgMint> for CosmosMsg {
                open spec fn obeys_from_spec() -> bool { true }
                open spec fn from_spec(m: MsgMint) -> Self { CosmosMsg::TfMint(m) }
            }
            impl From<MsgMint> for CosmosMsg { fn from(m: MsgMint) -> (r: Self) { CosmosMsg::TfMint(m) } }
            impl FromSpecImpl<MsgBurn> for CosmosMsg {
                open spec fn obeys_from_spec() -> bool { true }
                open spec fn from_spec(m: MsgBurn) -> Self { CosmosMsg::TfBurn(m) }
            }
            impl From<MsgBurn> for CosmosMsg { fn from(m: MsgBurn) -> (r: Self) { CosmosMsg::TfBurn(m) } }
            }
        } }
        pub mod poolmanager { pub mod v1beta1 {
            use vstd::prelude::*;
            use vstd::std_specs::convert::FromSpecImpl;
            use crate::cosmwasm_std::{CosmosMsg, IntoCosmos};
            use super::super::super::cosmos::base::v1beta1::Coin;
            verus! {
            #[derive(Debug)]
            pub struct SwapAmountInRoute { pub pool_id: u64, pub token_out_denom: String }
            #[derive(Debug)]
            pub struct SwapAmountOutRoute { pub pool_id: u64, pub token_in_denom: String }
            #[derive(Debug)]
            pub struct MsgSwapExactAmountIn { pub sender: String, pub routes: Vec<SwapAmountInRoute>, pub token_in: Option<Coin>, pub token_out_min_amount: String }
            #[derive(Debug)]
            pub struct MsgSwapExactAmountOut { pub sender: String, pub routes: Vec<SwapAmountOutRoute>, pub token_in_max_amount: String, pub token_out: Option<Coin> }
            impl IntoCosmos for MsgSwapExactAmountIn { open spec fn cm(self) -> CosmosMsg { CosmosMsg::SwapIn(self) } }
            impl IntoCosmos for MsgSwapExactAmountOut { open spec fn cm(self) -> CosmosMsg { CosmosMsg::SwapOut(self) } }
            }
        } }
    }
}
