// schemars::Map (= BTreeMap) appears only as the type of a legacy field that is always None.
use vstd::prelude::*;
verus! {
#[verifier::external_body]
#[verifier::reject_recursive_types(K)]
#[verifier::reject_recursive_types(V)]
#[derive(Debug)]
pub struct Map<K, V> { k: core::marker::PhantomData<(K, V)> }
pub trait JsonSchema {}
}
