// Assumed contracts on std items that vstd does not specify, plus the shim string traits.
use vstd::prelude::*;
use vstd::std_specs::cmp::PartialEqSpec;
use vstd::std_specs::iter::IteratorSpec;
verus! {

/// vstd's spec map (the name `Map` is taken by cw-storage-plus in extracted modules)
pub type SMap<K, V> = vstd::map::Map<K, V>;

// ---------------------------------------------------------------- string extensionality
pub broadcast axiom fn axiom_string_ext(a: String, b: String)
    requires #[trigger] a@ == #[trigger] b@,
    ensures a == b;

pub axiom fn axiom_vec_ext<T>(a: Vec<T>, b: Vec<T>)
    requires a@ == b@,
    ensures a == b;

// `String == &str` (std impl is lifetime-generic; cannot be given a spec directly)
pub axiom fn axiom_string_eq_str<'a>(a: String, b: &'a str)
    ensures
        a.eq_spec(&b) == (a@ == b@),
        <String as vstd::std_specs::cmp::PartialEqSpec<&'a str>>::obeys_eq_spec();

// ---------------------------------------------------------------- Display / Into<String>
/// R2: stands for `impl Into<String>`; implemented for the argument types the repo passes.
pub trait IntoStr: Sized {
    spec fn sview(self) -> Seq<char>;
    fn into_string(self) -> (r: String)
        ensures r@ == self.sview();
    // the code calls `.into()` on `impl Into<String>` parameters
    fn into(self) -> (r: String)
        ensures r@ == self.sview();
}
impl<'a> IntoStr for &'a str {
    open spec fn sview(self) -> Seq<char> { self@ }
    #[verifier::external_body]
    fn into_string(self) -> (r: String) { unimplemented!() }
    #[verifier::external_body]
    fn into(self) -> (r: String) { unimplemented!() }
}
impl IntoStr for String {
    open spec fn sview(self) -> Seq<char> { self@ }
    #[verifier::external_body]
    fn into_string(self) -> (r: String) { unimplemented!() }
    #[verifier::external_body]
    fn into(self) -> (r: String) { unimplemented!() }
}
impl<'a> IntoStr for &'a String {
    open spec fn sview(self) -> Seq<char> { self@ }
    #[verifier::external_body]
    fn into_string(self) -> (r: String) { unimplemented!() }
    #[verifier::external_body]
    fn into(self) -> (r: String) { unimplemented!() }
}

/// what `Display` prints (R3).  `dec` is the decimal rendering of a natural number.
pub uninterp spec fn dec(n: nat) -> Seq<char>;
pub broadcast axiom fn axiom_dec_inj(a: nat, b: nat)
    requires #[trigger] dec(a) == #[trigger] dec(b),
    ensures a == b;

pub trait DisplayStr {
    spec fn dview(&self) -> Seq<char>;
}
impl<'a> DisplayStr for &'a str { open spec fn dview(&self) -> Seq<char> { (*self)@ } }
impl DisplayStr for String { open spec fn dview(&self) -> Seq<char> { self@ } }
impl<'a> DisplayStr for &'a String { open spec fn dview(&self) -> Seq<char> { (*self)@ } }
impl DisplayStr for u64 { open spec fn dview(&self) -> Seq<char> { dec(*self as nat) } }
impl DisplayStr for u128 { open spec fn dview(&self) -> Seq<char> { dec(*self as nat) } }

#[verifier::external_body]
pub fn dstr<T: DisplayStr>(x: &T) -> (r: String)
    ensures r@ == x.dview()
{ unimplemented!() }

/// R3: `{:?}` placeholders – the Debug text is not specified
pub uninterp spec fn debug_text<T>(x: T) -> Seq<char>;
pub struct DebugOf<'a, T>(pub &'a T);
impl<'a, T> DisplayStr for DebugOf<'a, T> { open spec fn dview(&self) -> Seq<char> { debug_text(*self.0) } }

#[verifier::external_body]
pub fn sconcat(a: String, b: String) -> (r: String)
    ensures r@ == a@ + b@
{ unimplemented!() }

// ---------------------------------------------------------------- std functions without vstd specs
pub assume_specification[ String::len ](s: &String) -> (r: usize)
    ensures r == str_byte_len(s@);

// vstd specifies `str::len` only as the opaque spec function `s.len()`; tie it to the view.
pub broadcast axiom fn axiom_str_len(s: &str)
    ensures #[trigger] s.len() == str_byte_len(s@);

/// UTF-8 length in bytes of a string; equals the number of chars for ASCII strings.
pub uninterp spec fn str_byte_len(s: Seq<char>) -> nat;
pub broadcast axiom fn axiom_str_byte_len(s: Seq<char>)
    ensures
        #[trigger] str_byte_len(s) >= s.len(),
        str_byte_len(s) <= 4 * s.len(),
        str_byte_len(s) <= usize::MAX,
        (forall|i: int| 0 <= i < s.len() ==> (s[i] as u32) < 128) ==> str_byte_len(s) == s.len();
pub broadcast axiom fn axiom_str_byte_len_concat(a: Seq<char>, b: Seq<char>)
    ensures #[trigger] str_byte_len(a + b) == str_byte_len(a) + str_byte_len(b);

/// a String with a given view (total; `str_of(x@) == x` follows from extensionality)
pub uninterp spec fn str_of(s: Seq<char>) -> String;
pub broadcast axiom fn axiom_str_of(s: Seq<char>)
    ensures #[trigger] str_of(s)@ == s;

/// UTF-8 bytes of a string
pub uninterp spec fn str_bytes(s: Seq<char>) -> Seq<u8>;
pub assume_specification[ String::as_bytes ](s: &String) -> (r: &[u8])
    ensures r@ == str_bytes(s@);
pub assume_specification<T: Clone>[ <[T]>::to_vec ](s: &[T]) -> (r: Vec<T>)
    ensures r@ == s@;

/// `[a, b].concat()` for vectors
#[verifier::external_trait_specification]
pub trait ExConcat<Item: ?Sized> {
    type ExternalTraitSpecificationFor: std::slice::Concat<Item>;
    type Output;
}
pub uninterp spec fn concat_spec<T, O>(s: Seq<T>, r: O) -> bool;
pub assume_specification<T, Item: ?Sized>[ <[T]>::concat ](s: &[T]) -> (r: <[T] as std::slice::Concat<Item>>::Output)
    where [T]: std::slice::Concat<Item>
    ensures concat_spec(s@, r);
pub broadcast axiom fn axiom_concat2<X>(s: Seq<Vec<X>>, r: Vec<X>)
    requires #[trigger] concat_spec(s, r), s.len() == 2,
    ensures r@ == s[0]@ + s[1]@;

/// std's `Hash`/`Eq` for `String` are deterministic and agree
pub broadcast axiom fn axiom_string_key_model()
    ensures #[trigger] vstd::std_specs::hash::obeys_key_model::<String>();

pub broadcast group group_std_ext {
    lemma_muldiv_le,
    axiom_string_key_model,
    axiom_parse_u64,
    axiom_pat_view_str,
    axiom_str_of,
    axiom_concat2,
    axiom_string_ext,
    axiom_dec_inj,
    axiom_str_len,
    axiom_str_byte_len,
    axiom_str_byte_len_concat,
    axiom_str_bytes,
}

} // verus!
verus! {
// `slice::Iter::position` (the slice iterator's own implementation): first index whose
// element satisfies the predicate.
pub assume_specification<'a, T, P: FnMut(&'a T) -> bool>[ <core::slice::Iter<'a, T> as Iterator>::position ](it: &mut core::slice::Iter<'a, T>, pred: P) -> (r: Option<usize>)
    where core::slice::Iter<'a, T>: Sized
    requires
        forall|i: int| 0 <= i < old(it).remaining().len() ==> call_requires(pred, (#[trigger] old(it).remaining()[i],)),
    ensures
        match r {
            Some(k) => k < old(it).remaining().len() && call_ensures(pred, (old(it).remaining()[k as int],), true)
                && forall|j: int| 0 <= j < k ==> call_ensures(pred, (#[trigger] old(it).remaining()[j],), false),
            None => forall|j: int| 0 <= j < old(it).remaining().len() ==> call_ensures(pred, (#[trigger] old(it).remaining()[j],), false),
        };
}
verus! {
pub assume_specification<T, E, F: FnOnce(E) -> T>[ Result::<T, E>::unwrap_or_else ](res: Result<T, E>, op: F) -> (r: T)
    requires res is Err ==> call_requires(op, (res->Err_0,)),
    ensures
        res is Ok ==> r == res->Ok_0,
        res is Err ==> call_ensures(op, (res->Err_0,), r);
}

verus! {
// ---------------------------------------------------------------- floor(a*b/c), kept opaque
/// `floor(a * b / c)`.  Closed so that the nonlinear term never reaches the solver unasked;
/// everything known about it comes from the lemmas below (all proved, no axioms).
pub closed spec fn muldiv(a: nat, b: nat, c: nat) -> nat { (a * b) / c }

pub proof fn lemma_muldiv_def(a: nat, b: nat, c: nat)
    ensures muldiv(a, b, c) == (a * b) / c
{}
/// c > 0  ==>  muldiv*c <= a*b < (muldiv+1)*c
pub proof fn lemma_muldiv_floor(a: nat, b: nat, c: nat)
    requires c > 0,
    ensures muldiv(a, b, c) * c <= a * b, a * b < (muldiv(a, b, c) + 1) * c,
{
    let p = a * b;
    assert((p / c) * c <= p && p < (p / c + 1) * c) by (nonlinear_arith) requires c > 0;
}
/// b <= c  ==>  muldiv(a,b,c) <= a      (broadcast: available wherever the term occurs)
pub broadcast proof fn lemma_muldiv_le(a: nat, b: nat, c: nat)
    requires c > 0, b <= c,
    ensures #[trigger] muldiv(a, b, c) <= a,
{
    assert(a * b <= a * c) by (nonlinear_arith) requires b <= c;
    assert((a * b) / c <= a) by (nonlinear_arith) requires a * b <= a * c, c > 0;
}
/// a <= k*c  ==>  muldiv(a,b,c) <= k*b
pub proof fn lemma_muldiv_bound(a: nat, b: nat, c: nat, k: nat)
    requires c > 0, a <= k * c,
    ensures muldiv(a, b, c) <= k * b,
{
    assert(a * b <= (k * b) * c) by (nonlinear_arith) requires a <= k * c;
    assert((a * b) / c <= k * b) by (nonlinear_arith) requires a * b <= (k * b) * c, c > 0;
}
pub proof fn lemma_muldiv_zero(a: nat, b: nat, c: nat)
    requires c > 0, a == 0 || b == 0,
    ensures muldiv(a, b, c) == 0,
{
    assert(a * b == 0) by (nonlinear_arith) requires a == 0 || b == 0;
}
/// muldiv is monotone in its first argument
pub proof fn lemma_muldiv_mono(a1: nat, a2: nat, b: nat, c: nat)
    requires c > 0, a1 <= a2,
    ensures muldiv(a1, b, c) <= muldiv(a2, b, c),
{
    assert(a1 * b <= a2 * b) by (nonlinear_arith) requires a1 <= a2;
    let p = a1 * b; let q = a2 * b;
    assert(p / c <= q / c) by (nonlinear_arith) requires p <= q, c > 0;
}
}
verus! {
pub open spec fn is_ascii_alpha(c: char) -> bool { (65 <= c as u32 <= 90) || (97 <= c as u32 <= 122) }
pub assume_specification[ char::is_ascii_alphabetic ](c: &char) -> (r: bool)
    ensures r == is_ascii_alpha(*c);
#[verifier::external_trait_specification]
pub trait ExPattern: Sized {
    type ExternalTraitSpecificationFor: core::str::pattern::Pattern;
}
/// the text a `Pattern` argument matches (only `&str` patterns are used by the repo)
pub uninterp spec fn pat_view<P>(p: P) -> Seq<char>;
pub broadcast axiom fn axiom_pat_view_str(p: &str)
    ensures #[trigger] pat_view(p) == p@;
pub assume_specification<P: core::str::pattern::Pattern>[ str::starts_with::<P> ](s: &str, p: P) -> (r: bool)
    ensures r == (s@.len() >= pat_view(p).len() && s@.take(pat_view(p).len() as int) == pat_view(p));
pub assume_specification<'a, P: core::str::pattern::Pattern>[ str::strip_prefix::<P> ](s: &'a str, p: P) -> (r: Option<&'a str>)
    ensures
        r is Some <==> (s@.len() >= pat_view(p).len() && s@.take(pat_view(p).len() as int) == pat_view(p)),
        r is Some ==> r->Some_0@ == s@.skip(pat_view(p).len() as int)
            && r->Some_0.len() == str_byte_len(s@.skip(pat_view(p).len() as int));
/// u64 decimal parsing (`FromStr for u64`): digits, with an optional leading `+`
pub uninterp spec fn parse_u64_ok(s: Seq<char>) -> bool;
#[verifier::external_type_specification]
#[verifier::external_body]
pub struct ExParseIntError(std::num::ParseIntError);
}
verus! {
pub assume_specification<T, E>[ Option::<Result<T, E>>::transpose ](o: Option<Result<T, E>>) -> (r: Result<Option<T>, E>)
    ensures r == (match o {
        None => Ok::<Option<T>, E>(None),
        Some(Ok(v)) => Ok::<Option<T>, E>(Some(v)),
        Some(Err(e)) => Err::<Option<T>, E>(e),
    });

#[verifier::external_trait_specification]
pub trait ExFromStr: Sized {
    type ExternalTraitSpecificationFor: core::str::FromStr;
    type Err;
}
/// whether `s.parse::<F>()` succeeds
pub uninterp spec fn parse_ok<F>(s: Seq<char>) -> bool;
/// the value `s.parse::<F>()` yields when it succeeds
pub uninterp spec fn parse_val<F>(s: Seq<char>) -> F;
pub assume_specification<F: core::str::FromStr>[ str::parse::<F> ](s: &str) -> (r: Result<F, <F as core::str::FromStr>::Err>)
    ensures r is Ok <==> parse_ok::<F>(s@), r is Ok ==> r->Ok_0 == parse_val::<F>(s@);
pub open spec fn is_digit(c: char) -> bool { 48 <= c as u32 <= 57 }
pub open spec fn all_digits(s: Seq<char>) -> bool { forall|i: int| 0 <= i < s.len() ==> is_digit(#[trigger] s[i]) }
/// core::num `from_str_radix` for u64 (truthful): non-empty, an optional leading `+`, then digits
pub broadcast axiom fn axiom_parse_u64(s: Seq<char>)
    requires #[trigger] parse_ok::<u64>(s),
    ensures s.len() >= 1 && (all_digits(s) || (s[0] == '+' && s.len() >= 2 && all_digits(s.skip(1))));
pub assume_specification[ char::is_ascii_digit ](c: &char) -> (r: bool)
    ensures r == is_digit(*c);
}
verus! {
/// `Vec<T> == [U]` (alloc: element-wise)
pub assume_specification<T: PartialEq<U>, U, A: core::alloc::Allocator>[ <Vec<T, A> as PartialEq<[U]>>::eq ](a: &Vec<T, A>, b: &[U]) -> (r: bool)
    ensures
        <T as vstd::std_specs::cmp::PartialEqSpec<U>>::obeys_eq_spec() ==>
            r == (a@.len() == b@.len() && forall|i: int| 0 <= i < a@.len() ==> (#[trigger] a@[i]).eq_spec(&b@[i]));
}
verus! {
// ---------------------------------------------------------------- R4: Box<dyn Fn(&V) -> bool>
/// Stand-in for `Box<dyn Fn(&V) -> bool>` (Verus rejects `dyn Fn`).  The predicate's meaning
/// is the wrapped closure's `ensures`; dynamic dispatch itself is dropped.
#[verifier::reject_recursive_types(V)]
pub struct DynPred<V> { pub p: Ghost<spec_fn(V) -> bool> }
impl<V> DynPred<V> {
    #[verifier::external_body]
    pub fn new<F: Fn(&V) -> bool>(f: F) -> (r: Self)
        requires
            forall|v: V| #[trigger] f.requires((&v,)),
        ensures
            // `p(v)` is the value the (pure, deterministic) closure returns on `v`
            forall|v: V| f.ensures((&v,), #[trigger] (r.p@)(v)),
    { unimplemented!() }
    #[verifier::external_body]
    pub fn call(&self, v: &V) -> (b: bool)
        ensures b == (self.p@)(*v)
    { unimplemented!() }
}
}
verus! {
// ---------------------------------------------------------------- `x.to_string()` via Display
// vstd specifies `<T as ToString>::to_string` as `to_string_from_display_ensures::<T>(self, r)`
// and only defines that predicate for `str`.  Display of `String` prints the string; Display
// of the unsigned integers prints decimal digits.
pub broadcast axiom fn axiom_to_string_string(t: &String, s: String)
    ensures #[trigger] vstd::string::to_string_from_display_ensures::<String>(t, s) <==> s@ == t@;
pub broadcast axiom fn axiom_to_string_u64(t: &u64, s: String)
    ensures #[trigger] vstd::string::to_string_from_display_ensures::<u64>(t, s) <==> s@ == dec(*t as nat);
pub broadcast axiom fn axiom_to_string_u128(t: &u128, s: String)
    ensures #[trigger] vstd::string::to_string_from_display_ensures::<u128>(t, s) <==> s@ == dec(*t as nat);
pub broadcast axiom fn axiom_to_string_usize(t: &usize, s: String)
    ensures #[trigger] vstd::string::to_string_from_display_ensures::<usize>(t, s) <==> s@ == dec(*t as nat);
pub broadcast group group_to_string {
    axiom_to_string_string,
    axiom_to_string_u64,
    axiom_to_string_u128,
    axiom_to_string_usize,
}
}
verus! {
/// `&String == &String` / `!=` (core::cmp impl for references delegates to String's)
pub axiom fn axiom_string_ref_eq<'a, 'b>(a: &'a String, b: &'b String)
    ensures
        <&'a String as vstd::std_specs::cmp::PartialEqSpec<&'b String>>::obeys_eq_spec(),
        <&'a String as vstd::std_specs::cmp::PartialEqSpec<&'b String>>::eq_spec(&a, &b) == (a@ == b@);
}
verus! {
/// floor is super-additive: muldiv(r,a,t) + muldiv(r,b,t) <= muldiv(r,a+b,t)
pub proof fn lemma_muldiv_superadd(r: nat, a: nat, b: nat, t: nat)
    requires t > 0,
    ensures muldiv(r, a, t) + muldiv(r, b, t) <= muldiv(r, a + b, t),
{
    let x = r * a; let y = r * b;
    assert(r * (a + b) == x + y) by (nonlinear_arith) requires x == r * a, y == r * b;
    assert(x / t + y / t <= (x + y) / t) by (nonlinear_arith) requires t > 0;
}
}

verus! {
// ---------------------------------------------------------------- more std functions (exact meanings)
pub assume_specification<T, U, F: FnOnce(T) -> U>[ Option::<T>::map_or ](o: Option<T>, default: U, f: F) -> (r: U)
    requires o is Some ==> call_requires(f, (o->Some_0,)),
    ensures
        o is None ==> r == default,
        o is Some ==> call_ensures(f, (o->Some_0,), r);
pub assume_specification<T, F: FnOnce(T) -> bool>[ Option::<T>::is_some_and ](o: Option<T>, f: F) -> (r: bool)
    requires o is Some ==> call_requires(f, (o->Some_0,)),
    ensures
        o is None ==> !r,
        o is Some ==> call_ensures(f, (o->Some_0,), r);
pub assume_specification<P: core::str::pattern::Pattern>[ str::ends_with::<P> ](s: &str, p: P) -> (r: bool)
    where for<'a> <P as core::str::pattern::Pattern>::Searcher<'a>: core::str::pattern::ReverseSearcher<'a>
    ensures r == (s@.len() >= pat_view(p).len() && s@.skip(s@.len() - pat_view(p).len()) == pat_view(p));
}

verus! {
pub assume_specification<T>[ Option::<T>::or ](a: Option<T>, b: Option<T>) -> (r: Option<T>)
    ensures r == (if a is Some { a } else { b });

/// `str::trim*`: the result is a contiguous part of the argument; identity when nothing is to be trimmed
pub uninterp spec fn trim_spec(s: Seq<char>) -> Seq<char>;
pub open spec fn is_ws(c: char) -> bool { c == ' ' || (9 <= c as u32 <= 13) || c as u32 == 0x85 || c as u32 == 0xA0 || c as u32 >= 0x1680 }
pub broadcast axiom fn axiom_trim(s: Seq<char>)
    ensures
        #[trigger] trim_spec(s).len() <= s.len(),
        (s.len() == 0 || (!is_ws(s[0]) && !is_ws(s[s.len() - 1]))) ==> trim_spec(s) == s,
        trim_spec(s).len() > 0 ==> !is_ws(trim_spec(s)[0]);
pub assume_specification<'a>[ str::trim ](s: &'a str) -> (r: &'a str)
    ensures r@ == trim_spec(s@);
}

verus! {
// ---------------------------------------------------------------- `str::bytes()` (R8: `X.bytes()` is re-emitted as `vf_bytes(X)`)
// `core::str::Bytes` is a foreign type and `IteratorSpecImpl` a foreign trait, so the iterator is
// modelled by a shim type with the std meaning: it yields the UTF-8 bytes of the string in order.
pub broadcast axiom fn axiom_str_bytes(s: Seq<char>)
    ensures
        #[trigger] str_bytes(s).len() == str_byte_len(s),
        // a string is ASCII exactly when all its UTF-8 bytes are < 128, and then bytes and chars coincide
        (forall|i: int| 0 <= i < str_bytes(s).len() ==> str_bytes(s)[i] < 128) ==>
            s.len() == str_bytes(s).len() && forall|i: int| 0 <= i < s.len() ==> s[i] as u32 == #[trigger] str_bytes(s)[i] as u32;
pub struct StrBytes { pub items: Ghost<Seq<u8>> }
impl Iterator for StrBytes {
    type Item = u8;
    #[verifier::external_body]
    fn next(&mut self) -> Option<u8> { unimplemented!() }
}
impl vstd::std_specs::iter::IteratorSpecImpl for StrBytes {
    open spec fn obeys_prophetic_iter_laws(&self) -> bool { true }
    open spec fn remaining(&self) -> Seq<u8> { self.items@ }
    open spec fn will_return_none(&self) -> bool { true }
    open spec fn decrease(&self) -> Option<nat> { Some(self.items@.len()) }
    open spec fn peek(&self, i: int) -> Option<u8> { if 0 <= i < self.items@.len() { Some(self.items@[i]) } else { None } }
}
#[verifier::external_body]
pub fn vf_bytes(s: &str) -> (r: StrBytes) ensures r.items@ == str_bytes(s@) { unimplemented!() }

pub assume_specification[ u8::is_ascii_lowercase ](b: &u8) -> (o: bool) ensures o == (97 <= *b <= 122);
pub assume_specification[ u8::is_ascii_uppercase ](b: &u8) -> (o: bool) ensures o == (65 <= *b <= 90);
pub open spec fn ascii_lower_char(c: char) -> char { if 65 <= c as u32 <= 90 { ((c as u32 + 32) as u8) as char } else { c } }
pub open spec fn ascii_lower(s: Seq<char>) -> Seq<char> { s.map_values(|c: char| ascii_lower_char(c)) }
/// `str::to_lowercase` on ASCII-only text is ASCII lower-casing (nothing is said about other text)
pub assume_specification[ str::to_lowercase ](s: &str) -> (r: String)
    ensures (forall|i: int| 0 <= i < s@.len() ==> (s@[i] as u32) < 128) ==> r@ == ascii_lower(s@);
}
verus! {
// ---------------------------------------------------------------- `Vec::into_iter()` adapter chains (R9: `.into_iter()` is re-emitted as `.vf_into_iter()`)
// std's `FilterMap` adapter has no vstd model; the chain is run over a shim iterator whose
// adapters have their std meaning (element-wise map, map-and-drop-None, collect in order).
pub struct SeqIter<T> { pub items: Ghost<Seq<T>> }
pub trait VfIntoIter<T>: Sized {
    spec fn vf_seq(self) -> Seq<T>;
    fn vf_into_iter(self) -> (r: SeqIter<T>)
        ensures r.items@ == self.vf_seq();
}
impl<T> VfIntoIter<T> for Vec<T> {
    open spec fn vf_seq(self) -> Seq<T> { self@ }
    #[verifier::external_body]
    fn vf_into_iter(self) -> (r: SeqIter<T>) { unimplemented!() }
}
pub open spec fn vf_opt_some<B>() -> spec_fn(Option<B>) -> bool { |o: Option<B>| o is Some }
pub open spec fn vf_opt_get<B>() -> spec_fn(Option<B>) -> B { |o: Option<B>| o->Some_0 }
impl<T> SeqIter<T> {
    pub open spec fn remaining(&self) -> Seq<T> { self.items@ }
    #[verifier::external_body]
    pub fn map<B, F: FnMut(T) -> B>(self, f: F) -> (r: SeqIter<B>)
        requires forall|i: int| 0 <= i < self.items@.len() ==> call_requires(f, (#[trigger] self.items@[i],)),
        ensures
            r.items@.len() == self.items@.len(),
            forall|i: int| 0 <= i < self.items@.len() ==> call_ensures(f, (self.items@[i],), #[trigger] r.items@[i]),
    { unimplemented!() }
    #[verifier::external_body]
    pub fn filter_map<B, F: FnMut(T) -> Option<B>>(self, f: F) -> (r: SeqIter<B>)
        requires forall|i: int| 0 <= i < self.items@.len() ==> call_requires(f, (#[trigger] self.items@[i],)),
        ensures
            forall|g: spec_fn(T) -> Option<B>| #![trigger self.items@.map_values(g)]
                (forall|a: T, o: Option<B>| #[trigger] call_ensures(f, (a,), o) ==> o == g(a))
                ==> r.items@ == self.items@.map_values(g).filter(vf_opt_some::<B>()).map_values(vf_opt_get::<B>()),
    { unimplemented!() }
    #[verifier::external_body]
    pub fn collect(self) -> (r: Vec<T>)
        ensures r@ == self.items@
    { unimplemented!() }
}
}
verus! {
// ---------------------------------------------------------------- `String::from` / `.into()` (std meaning: the same text)
// vstd routes these through a generic `FromSpec` whose result is unconstrained for std impls, so an equivalent
// rewrite of `x.to_string()` into `String::from(x)` / `x.into()` would otherwise leave the value arbitrary.
pub assume_specification<'a>[ <String as From<&'a str>>::from ](s: &str) -> (r: String) ensures r@ == s@;
pub assume_specification<'a>[ <String as From<&'a String>>::from ](s: &String) -> (r: String) ensures r@ == s@;
pub assume_specification<T>[ <T as From<T>>::from ](t: T) -> (r: T) ensures r == t;
}
