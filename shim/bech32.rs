// bech32 0.9.1 – uninterpreted codec.
use vstd::prelude::*;
verus! {
#[derive(Debug, Structural, PartialEq, Eq, Clone, Copy)]
pub enum Variant { Bech32, Bech32m }
#[derive(Debug)]
pub struct Error { pub dummy: u8 }
#[allow(non_camel_case_types)]
#[derive(Debug)]
pub struct u5(pub u8);
/// hrp of a checksum-valid bech32 string (None when `decode` fails)
pub uninterp spec fn bech32_hrp(s: Seq<char>) -> Option<Seq<char>>;
/// lib.rs `decode`: the returned hrp is lower-cased
pub broadcast axiom fn axiom_hrp_lower(s: Seq<char>)
    requires (#[trigger] bech32_hrp(s)) is Some,
    ensures forall|i: int| 0 <= i < bech32_hrp(s)->Some_0.len() ==> !(65 <= (#[trigger] bech32_hrp(s)->Some_0[i]) as u32 <= 90);
#[verifier::external_body]
pub fn decode(s: &str) -> (r: Result<(String, Vec<u5>, Variant), Error>)
    ensures
        r is Ok <==> bech32_hrp(s@) is Some,
        r is Ok ==> r->Ok_0.0@ == bech32_hrp(s@)->Some_0,
{ unimplemented!() }
pub uninterp spec fn to_base32_spec(b: Seq<u8>) -> Seq<u5>;
pub uninterp spec fn bech32_enc(hrp: Seq<char>, data: Seq<u5>, v: Variant) -> Option<Seq<char>>;
pub trait ToBase32 {
    spec fn bytes(&self) -> Seq<u8>;
    fn to_base32(&self) -> (r: Vec<u5>) ensures r@ == to_base32_spec(self.bytes());
}
impl ToBase32 for [u8; 32] {
    open spec fn bytes(&self) -> Seq<u8> { self@ }
    #[verifier::external_body]
    fn to_base32(&self) -> (r: Vec<u5>) { unimplemented!() }
}
#[verifier::external_body]
pub fn encode(hrp: &str, data: Vec<u5>, v: Variant) -> (r: Result<String, Error>)
    ensures
        r is Ok <==> bech32_enc(hrp@, data@, v) is Some,
        r is Ok ==> r->Ok_0@ == bech32_enc(hrp@, data@, v)->Some_0,
{ unimplemented!() }
}
verus! {
/// lib.rs `decode`: the string is `<hrp>1<data>` with at least 6 checksum characters, all ASCII.
pub broadcast axiom fn axiom_bech32_len(s: Seq<char>)
    requires (#[trigger] bech32_hrp(s)) is Some,
    ensures
        crate::std_ext::str_byte_len(s) >= crate::std_ext::str_byte_len(bech32_hrp(s)->Some_0) + 7,
        bech32_hrp(s)->Some_0.len() >= 1;
}
