// Stand-in for serde's marker role: a type that cw-storage-plus can store.  The spec
// functions say *which component of the abstract store* an `Item<T>` / `Map<u64, T>` of this
// type denotes (type-directed: this repo stores at most one Item and one Map per value type
// and world).  Types that are never stored keep the defaults.
use vstd::prelude::*;
use crate::vspec::StoreView;
verus! {
pub trait Serialize: Sized {
    open spec fn item_get(s: StoreView) -> Option<Self> { None }
    open spec fn item_put(s: StoreView, v: Option<Self>) -> StoreView { s }
    open spec fn map_get(s: StoreView) -> vstd::map::Map<u64, Self> { vstd::map::Map::empty() }
    open spec fn map_put(s: StoreView, m: vstd::map::Map<u64, Self>) -> StoreView { s }
    open spec fn imap_get(s: StoreView) -> vstd::map::Map<(u64, String), Self> { vstd::map::Map::empty() }
    open spec fn imap_put(s: StoreView, m: vstd::map::Map<(u64, String), Self>) -> StoreView { s }
}
pub trait Deserialize {}
}
pub mod de {
    use vstd::prelude::*;
    verus! {
    pub trait DeserializeOwned {}
    impl<T: super::Serialize> DeserializeOwned for T {}
    }
}
