// prost / prost-types as seen by initia_proto::traits.  The wire format is uninterpreted;
// assumption: decoding the canonical encoding of a message gives the message back.
use vstd::prelude::*;
verus! {
#[derive(Debug)]
pub struct EncodeError { pub dummy: u8 }
#[derive(Debug)]
pub struct DecodeError { pub dummy: u8 }
impl DecodeError {
    #[verifier::external_body]
    pub fn new(description: String) -> (r: DecodeError) { unimplemented!() }
    #[verifier::external_body]
    pub fn push(&mut self, message: &'static str, field: &'static str) { unimplemented!() }
}
/// google.protobuf.Any (prost-types)
pub struct Any { pub type_url: String, pub value: Vec<u8> }
pub uninterp spec fn proto_bytes<M>(m: M) -> Seq<u8>;
pub uninterp spec fn proto_decode<M>(b: Seq<u8>) -> Option<M>;
pub broadcast axiom fn axiom_decode_encode<M>(m: M)
    ensures #[trigger] proto_decode::<M>(proto_bytes(m)) == Some(m);
pub trait Message: Sized {
    /// `encode` into a growable Vec never runs out of capacity
    fn encode(&self, buf: &mut Vec<u8>) -> (r: Result<(), EncodeError>)
        ensures r is Ok, final(buf)@ == old(buf)@ + proto_bytes(*self);
    fn decode(buf: &[u8]) -> (r: Result<Self, DecodeError>)
        ensures
            r is Ok <==> proto_decode::<Self>(buf@) is Some,
            r is Ok ==> r->Ok_0 == proto_decode::<Self>(buf@)->Some_0;
}
}
