// initia_proto::traits::MessageExt as used by the miniwasm token-factory back end.
// (`to_bytes` = prost `encode` into a fresh Vec: infallible for a growable buffer.)
use vstd::prelude::*;
use crate::prost::{EncodeError, proto_bytes};
verus! {
pub trait MessageExt: Sized {
    fn to_bytes(&self) -> (r: Result<Vec<u8>, EncodeError>)
        ensures r is Ok, r->Ok_0@ == proto_bytes(*self);
}
impl<M: crate::prost::Message> MessageExt for M {
    #[verifier::external_body]
    fn to_bytes(&self) -> (r: Result<Vec<u8>, EncodeError>) { unimplemented!() }
}
}
