// cw-utils 1.0.3 payment helpers.
use vstd::prelude::*;
use crate::cosmwasm_std::{MessageInfo, Uint128, Coin};
verus! {
#[derive(Debug)]
pub enum PaymentError {
    MissingDenom(String), ExtraDenom(String), MultipleDenoms {}, NoFunds {}, NonPayable {},
}
/// payment.rs `must_pay`: `one_coin(info)?` (exactly one coin, non-zero amount), then the
/// denom must match.
pub open spec fn must_pay_ok(info: MessageInfo, denom: Seq<char>) -> bool {
    info.funds@.len() == 1 && info.funds@[0].amount.0 != 0 && info.funds@[0].denom@ == denom
}
#[verifier::external_body]
pub fn must_pay(info: &MessageInfo, denom: &str) -> (r: Result<Uint128, PaymentError>)
    ensures
        r is Ok <==> must_pay_ok(*info, denom@),
        r is Ok ==> r->Ok_0 == info.funds@[0].amount,
{ unimplemented!() }
}
