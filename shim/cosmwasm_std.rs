// Assumed contracts for the parts of cosmwasm-std 1.5.9 the repo uses.
// Written from ~/.cargo/registry/src/*/cosmwasm-std-1.5.9/src.
use vstd::prelude::*;
use vstd::std_specs::cmp::{PartialEqSpecImpl, PartialOrdSpecImpl};
use vstd::std_specs::ops::{AddSpecImpl, AddAssignSpecImpl};
use vstd::std_specs::convert::FromSpecImpl;
use crate::vspec::StoreView;
use crate::std_ext::*;
verus! {

// ------------------------------------------------------------------------------ errors
#[derive(Debug)]
pub struct StdError { pub msg: String }
pub type StdResult<T> = core::result::Result<T, StdError>;
impl StdError {
    #[verifier::external_body]
    pub fn generic_err(msg: impl IntoStr) -> (r: StdError) { unimplemented!() }
}
#[derive(Debug)]
pub struct OverflowError { pub dummy: u8 }
impl FromSpecImpl<OverflowError> for StdError {
    open spec fn obeys_from_spec() -> bool { false }
    open spec fn from_spec(e: OverflowError) -> Self { arbitrary() }
}
impl From<OverflowError> for StdError {
    #[verifier::external_body]
    fn from(e: OverflowError) -> (r: Self) { unimplemented!() }
}

// ------------------------------------------------------------------------------ Addr
#[derive(Debug)]
pub struct Addr(pub String);
impl Addr {
    #[verifier::external_body]
    pub fn unchecked(s: impl IntoStr) -> (r: Addr)
        ensures r.0@ == s.sview()
    { unimplemented!() }
    #[verifier::external_body]
    pub fn as_str(&self) -> (r: &str)
        ensures r@ == self.0@, r.len() == str_byte_len(self.0@)
    { unimplemented!() }
    #[verifier::external_body]
    pub fn to_string(&self) -> (r: String)
        ensures r == self.0
    { unimplemented!() }
    #[verifier::external_body]
    pub fn into_string(self) -> (r: String)
        ensures r == self.0
    { unimplemented!() }
}
impl Clone for Addr {
    #[verifier::external_body]
    fn clone(&self) -> (r: Self) ensures r == *self { unimplemented!() }
}
impl PartialEqSpecImpl for Addr {
    open spec fn obeys_eq_spec() -> bool { true }
    open spec fn eq_spec(&self, o: &Addr) -> bool { *self == *o }
}
impl PartialEq for Addr {
    #[verifier::external_body]
    fn eq(&self, o: &Addr) -> (r: bool) ensures r == (*self == *o) { unimplemented!() }
}
// `&Addr == Addr` (cosmwasm-std addresses.rs: `impl PartialEq<Addr> for &Addr`, compares the values)
impl<'a> PartialEqSpecImpl<Addr> for &'a Addr {
    open spec fn obeys_eq_spec() -> bool { true }
    open spec fn eq_spec(&self, o: &Addr) -> bool { **self == *o }
}
impl<'a> PartialEq<Addr> for &'a Addr {
    #[verifier::external_body]
    fn eq(&self, o: &Addr) -> (r: bool) ensures r == (**self == *o) { unimplemented!() }
}
// `Addr == String` (cosmwasm-std: compares the inner string)
impl PartialEqSpecImpl<String> for Addr {
    open spec fn obeys_eq_spec() -> bool { true }
    open spec fn eq_spec(&self, o: &String) -> bool { self.0 == *o }
}
impl PartialEq<String> for Addr {
    #[verifier::external_body]
    fn eq(&self, o: &String) -> (r: bool) ensures r == (self.0 == *o) { unimplemented!() }
}
impl<'a> IntoStr for &'a Addr {
    open spec fn sview(self) -> Seq<char> { self.0@ }
    #[verifier::external_body]
    fn into_string(self) -> (r: String) { unimplemented!() }
    #[verifier::external_body]
    fn into(self) -> (r: String) { unimplemented!() }
}
impl IntoStr for Addr {
    open spec fn sview(self) -> Seq<char> { self.0@ }
    #[verifier::external_body]
    fn into_string(self) -> (r: String) { unimplemented!() }
    #[verifier::external_body]
    fn into(self) -> (r: String) { unimplemented!() }
}
impl DisplayStr for Addr { open spec fn dview(&self) -> Seq<char> { self.0@ } }

// ------------------------------------------------------------------------------ Uint128
#[derive(Debug, Structural, PartialEq, Eq, Clone, Copy)]
pub struct Uint128(pub u128);

pub trait IntoU128: Sized {
    spec fn uv(self) -> u128;
}
impl IntoU128 for Uint128 { open spec fn uv(self) -> u128 { self.0 } }
impl IntoU128 for u128 { open spec fn uv(self) -> u128 { self } }
impl IntoU128 for u64 { open spec fn uv(self) -> u128 { self as u128 } }

impl Uint128 {
    pub const fn new(value: u128) -> (r: Uint128) ensures r.0 == value { Uint128(value) }
    pub const fn zero() -> (r: Uint128) ensures r.0 == 0 { Uint128(0) }
    pub const fn one() -> (r: Uint128) ensures r.0 == 1 { Uint128(1) }
    pub const fn u128(&self) -> (r: u128) ensures r == self.0 { self.0 }
    pub const fn is_zero(&self) -> (r: bool) ensures r == (self.0 == 0) { self.0 == 0 }
    pub fn checked_sub(self, o: Uint128) -> (r: Result<Uint128, OverflowError>)
        ensures
            self.0 >= o.0 ==> r == Ok::<Uint128, OverflowError>(Uint128((self.0 - o.0) as u128)),
            self.0 < o.0 ==> r is Err,
    {
        if self.0 >= o.0 { Ok(Uint128(self.0 - o.0)) } else { Err(OverflowError { dummy: 0 }) }
    }
    pub fn checked_add(self, o: Uint128) -> (r: Result<Uint128, OverflowError>)
        ensures
            self.0 + o.0 <= u128::MAX ==> r == Ok::<Uint128, OverflowError>(Uint128((self.0 + o.0) as u128)),
            self.0 + o.0 > u128::MAX ==> r is Err,
    {
        if self.0 <= u128::MAX - o.0 { Ok(Uint128(self.0 + o.0)) } else { Err(OverflowError { dummy: 0 }) }
    }
    /// uint128.rs:107-139 – computes floor(self * n / d) in 256 bits; panics when d == 0 or
    /// when the result does not fit in 128 bits.
    #[verifier::external_body]
    pub fn multiply_ratio<A: IntoU128, B: IntoU128>(&self, numerator: A, denominator: B) -> (r: Uint128)
        requires
            denominator.uv() != 0,
            muldiv(self.0 as nat, numerator.uv() as nat, denominator.uv() as nat) <= u128::MAX,
        ensures
            r.0 as nat == muldiv(self.0 as nat, numerator.uv() as nat, denominator.uv() as nat),
    { unimplemented!() }
    /// uint128.rs `checked_multiply_ratio`: Err(DivideByZero) / Err(Overflow) instead of panicking
    #[verifier::external_body]
    pub fn checked_multiply_ratio<A: IntoU128, B: IntoU128>(&self, numerator: A, denominator: B) -> (r: Result<Uint128, CheckedMultiplyRatioError>)
        ensures
            r is Ok <==> denominator.uv() != 0 && muldiv(self.0 as nat, numerator.uv() as nat, denominator.uv() as nat) <= u128::MAX,
            r is Ok ==> r->Ok_0.0 as nat == muldiv(self.0 as nat, numerator.uv() as nat, denominator.uv() as nat),
    { unimplemented!() }
    pub const MAX: Uint128 = Uint128(u128::MAX);
    pub fn saturating_sub(self, o: Uint128) -> (r: Uint128)
        ensures r.0 == (if self.0 >= o.0 { (self.0 - o.0) as u128 } else { 0 })
    { if self.0 >= o.0 { Uint128(self.0 - o.0) } else { Uint128(0) } }
    pub fn saturating_add(self, o: Uint128) -> (r: Uint128)
        ensures r.0 == (if self.0 + o.0 <= u128::MAX { (self.0 + o.0) as u128 } else { u128::MAX })
    { if self.0 <= u128::MAX - o.0 { Uint128(self.0 + o.0) } else { Uint128(u128::MAX) } }
    pub fn checked_mul(self, o: Uint128) -> (r: Result<Uint128, OverflowError>)
        ensures
            self.0 * o.0 <= u128::MAX ==> r == Ok::<Uint128, OverflowError>(Uint128((self.0 * o.0) as u128)),
            self.0 * o.0 > u128::MAX ==> r is Err,
    {
        match self.0.checked_mul(o.0) { Some(v) => Ok(Uint128(v)), None => Err(OverflowError { dummy: 0 }) }
    }
    /// `Uint128::mul_floor(Decimal)`: floor(self * d) with a 256-bit intermediate; panics on overflow
    #[verifier::external_body]
    pub fn mul_floor(self, d: Decimal) -> (r: Uint128)
        requires muldiv(self.0 as nat, d.0 as nat, DECIMAL_FRACTIONAL()) <= u128::MAX,
        ensures r.0 as nat == muldiv(self.0 as nat, d.0 as nat, DECIMAL_FRACTIONAL()),
    { unimplemented!() }
    #[verifier::external_body]
    pub fn to_string(&self) -> (r: String)
        ensures r@ == dec(self.0 as nat)
    { unimplemented!() }
}
#[derive(Debug)]
pub enum CheckedMultiplyRatioError { DivideByZero, Overflow }
impl PartialOrdSpecImpl for Uint128 {
    open spec fn obeys_partial_cmp_spec() -> bool { true }
    open spec fn partial_cmp_spec(&self, o: &Uint128) -> Option<core::cmp::Ordering> {
        if self.0 < o.0 { Some(core::cmp::Ordering::Less) }
        else if self.0 == o.0 { Some(core::cmp::Ordering::Equal) }
        else { Some(core::cmp::Ordering::Greater) }
    }
}
impl PartialOrd for Uint128 {
    fn partial_cmp(&self, o: &Uint128) -> (r: Option<core::cmp::Ordering>) {
        if self.0 < o.0 { Some(core::cmp::Ordering::Less) }
        else if self.0 == o.0 { Some(core::cmp::Ordering::Equal) }
        else { Some(core::cmp::Ordering::Greater) }
    }
    fn lt(&self, o: &Uint128) -> (r: bool) { self.0 < o.0 }
    fn le(&self, o: &Uint128) -> (r: bool) { self.0 <= o.0 }
    fn gt(&self, o: &Uint128) -> (r: bool) { self.0 > o.0 }
    fn ge(&self, o: &Uint128) -> (r: bool) { self.0 >= o.0 }
}
/// `Uint128 + Uint128` panics on overflow (uint128.rs: `checked_add(..).unwrap()`).
impl AddSpecImpl<Uint128> for Uint128 {
    open spec fn obeys_add_spec() -> bool { true }
    open spec fn add_req(self, o: Uint128) -> bool { self.0 + o.0 <= u128::MAX }
    open spec fn add_spec(self, o: Uint128) -> Uint128 { Uint128((self.0 + o.0) as u128) }
}
impl core::ops::Add<Uint128> for Uint128 {
    type Output = Uint128;
    fn add(self, o: Uint128) -> (r: Uint128) { Uint128(self.0 + o.0) }
}
impl AddAssignSpecImpl<Uint128> for Uint128 {
    open spec fn obeys_add_assign_spec() -> bool { true }
    open spec fn add_assign_req(&self, o: Uint128) -> bool { self.0 + o.0 <= u128::MAX }
    open spec fn add_assign_spec(&self, o: Uint128) -> &Uint128 { &Uint128((self.0 + o.0) as u128) }
}
impl core::ops::AddAssign<Uint128> for Uint128 {
    fn add_assign(&mut self, o: Uint128) { self.0 = self.0 + o.0; }
}
/// `Uint128 - Uint128` panics on underflow, `*` on overflow (uint128.rs)
impl vstd::std_specs::ops::SubSpecImpl<Uint128> for Uint128 {
    open spec fn obeys_sub_spec() -> bool { true }
    open spec fn sub_req(self, o: Uint128) -> bool { self.0 >= o.0 }
    open spec fn sub_spec(self, o: Uint128) -> Uint128 { Uint128((self.0 - o.0) as u128) }
}
impl core::ops::Sub<Uint128> for Uint128 {
    type Output = Uint128;
    fn sub(self, o: Uint128) -> (r: Uint128) { Uint128(self.0 - o.0) }
}
impl vstd::std_specs::ops::MulSpecImpl<Uint128> for Uint128 {
    open spec fn obeys_mul_spec() -> bool { true }
    open spec fn mul_req(self, o: Uint128) -> bool { self.0 * o.0 <= u128::MAX }
    open spec fn mul_spec(self, o: Uint128) -> Uint128 { Uint128((self.0 * o.0) as u128) }
}
impl core::ops::Mul<Uint128> for Uint128 {
    type Output = Uint128;
    fn mul(self, o: Uint128) -> (r: Uint128) { Uint128(self.0 * o.0) }
}
/// `Uint128 / Uint128` panics on a zero divisor
impl vstd::std_specs::ops::DivSpecImpl<Uint128> for Uint128 {
    open spec fn obeys_div_spec() -> bool { true }
    open spec fn div_req(self, o: Uint128) -> bool { o.0 != 0 }
    open spec fn div_spec(self, o: Uint128) -> Uint128 { Uint128(self.0 / o.0) }
}
impl core::ops::Div<Uint128> for Uint128 {
    type Output = Uint128;
    fn div(self, o: Uint128) -> (r: Uint128) { Uint128(self.0 / o.0) }
}
impl FromSpecImpl<u128> for Uint128 {
    open spec fn obeys_from_spec() -> bool { true }
    open spec fn from_spec(v: u128) -> Self { Uint128(v) }
}
impl From<u128> for Uint128 {
    fn from(v: u128) -> (r: Self) { Uint128(v) }
}
impl FromSpecImpl<u64> for Uint128 {
    open spec fn obeys_from_spec() -> bool { true }
    open spec fn from_spec(v: u64) -> Self { Uint128(v as u128) }
}
impl From<u64> for Uint128 {
    fn from(v: u64) -> (r: Self) { Uint128(v as u128) }
}
impl DisplayStr for Uint128 { open spec fn dview(&self) -> Seq<char> { dec(self.0 as nat) } }
impl IntoStr for Uint128 {
    open spec fn sview(self) -> Seq<char> { dec(self.0 as nat) }
    #[verifier::external_body]
    fn into_string(self) -> (r: String) { unimplemented!() }
    #[verifier::external_body]
    fn into(self) -> (r: String) { unimplemented!() }
}

// ------------------------------------------------------------------------------ Decimal
/// 18 fractional digits; the value is atomics / 10^18.
#[derive(Debug, Structural, PartialEq, Eq, Clone, Copy)]
pub struct Decimal(pub u128);
pub open spec fn DECIMAL_FRACTIONAL() -> nat { 1_000_000_000_000_000_000 }
pub open spec fn decimal_ratio(a: nat, b: nat) -> nat { muldiv(a, DECIMAL_FRACTIONAL(), b) }
pub uninterp spec fn decimal_str(atomics: nat) -> Seq<char>;
impl Decimal {
    pub const fn zero() -> (r: Decimal) ensures r.0 == 0 { Decimal(0) }
    /// decimal.rs: `checked_from_ratio(..)`: panics "Denominator must not be zero" / "Multiplication overflow"
    #[verifier::external_body]
    pub fn from_ratio(numerator: impl IntoU128, denominator: impl IntoU128) -> (r: Decimal)
        requires
            denominator.uv() != 0,
            decimal_ratio(numerator.uv() as nat, denominator.uv() as nat) <= u128::MAX,
        ensures
            r.av() as nat == decimal_ratio(numerator.uv() as nat, denominator.uv() as nat),
    { unimplemented!() }
    /// the atomics (value * 10^18) as an integer
    pub open spec fn av(self) -> u128 { self.0 }
    #[verifier::external_body]
    pub fn to_string(&self) -> (r: String)
        ensures r@ == decimal_str(self.0 as nat)
    { unimplemented!() }
    pub const fn one() -> (r: Decimal) ensures r.0 == 1_000_000_000_000_000_000 { Decimal(1_000_000_000_000_000_000) }
    pub fn is_zero(&self) -> (r: bool) ensures r == (self.0 == 0) { self.0 == 0 }
    /// decimal.rs `inv`: None for zero, else 10^36 / atomics (floor)
    #[verifier::external_body]
    pub fn inv(&self) -> (r: Option<Decimal>)
        ensures
            self.0 == 0 ==> r is None,
            self.0 != 0 ==> r is Some && r->Some_0.0 as nat == (1_000_000_000_000_000_000_000_000_000_000_000_000nat / (self.0 as nat)),
    { unimplemented!() }
}

impl Default for Decimal {
    fn default() -> (r: Decimal) ensures r.0 == 0 { Decimal(0) }
}
/// cosmwasm_std::Fraction (only `inv` is used)
pub trait Fraction<T>: Sized {
    fn inv(&self) -> Option<Self>;
}
// ------------------------------------------------------------------------------ Coin
#[derive(Debug)]
pub struct Coin { pub denom: String, pub amount: Uint128 }
impl Coin {
    #[verifier::external_body]
    pub fn new(amount: u128, denom: impl IntoStr) -> (r: Coin)
        ensures r.amount.0 == amount, r.denom@ == denom.sview()
    { unimplemented!() }
    /// Display for Coin: "<amount><denom>"
    #[verifier::external_body]
    pub fn to_string(&self) -> (r: String)
        ensures r@ == dec(self.amount.0 as nat) + self.denom@
    { unimplemented!() }
}
impl Clone for Coin {
    #[verifier::external_body]
    fn clone(&self) -> (r: Self) ensures r == *self { unimplemented!() }
}

// ------------------------------------------------------------------------------ Timestamp
/// nanoseconds since the epoch (timestamp.rs: `Timestamp(Uint64)`)
#[derive(Debug, Structural, PartialEq, Eq, Clone, Copy)]
pub struct Timestamp(pub u64);
impl Timestamp {
    /// nanoseconds since the epoch, as an integer
    pub open spec fn nv(self) -> u64 { self.0 }
    pub const fn from_nanos(nanos_since_epoch: u64) -> (r: Timestamp) ensures r.nv() == nanos_since_epoch { Timestamp(nanos_since_epoch) }
    /// `Timestamp(Uint64::new(seconds * 1_000_000_000))` – overflow panics (overflow-checks on).
    pub const fn from_seconds(seconds_since_epoch: u64) -> (r: Timestamp)
        requires seconds_since_epoch * 1_000_000_000 <= u64::MAX,
        ensures r.nv() == seconds_since_epoch * 1_000_000_000,
    { Timestamp(seconds_since_epoch * 1_000_000_000) }
    pub const fn nanos(&self) -> (r: u64) ensures r == self.nv() { self.0 }
    pub const fn seconds(&self) -> (r: u64) ensures r == self.nv() / 1_000_000_000 { self.0 / 1_000_000_000 }
    pub open spec fn secs(self) -> u64 { (self.0 / 1_000_000_000) as u64 }
}

#[derive(Debug)]
pub struct IbcTimeout { pub block: Option<u64>, pub timestamp: Option<Timestamp> }
impl IbcTimeout {
    pub fn with_timestamp(t: Timestamp) -> (r: IbcTimeout)
        ensures r.timestamp == Some(t)
    { IbcTimeout { block: None, timestamp: Some(t) } }
    pub fn timestamp(&self) -> (r: Option<Timestamp>)
        ensures r == self.timestamp
    { self.timestamp }
}

// ------------------------------------------------------------------------------ Env / MessageInfo
#[derive(Debug)]
pub struct BlockInfo { pub height: u64, pub time: Timestamp, pub chain_id: String }
#[derive(Debug)]
pub struct TransactionInfo { pub index: u32 }
#[derive(Debug)]
pub struct ContractInfo { pub address: Addr }
#[derive(Debug)]
pub struct Env { pub block: BlockInfo, pub transaction: Option<TransactionInfo>, pub contract: ContractInfo }
#[derive(Debug)]
pub struct MessageInfo { pub sender: Addr, pub funds: Vec<Coin> }

// ------------------------------------------------------------------------------ Storage / Deps
/// Opaque key-value store; its meaning is the typed abstract view of the world's `vspec`.
pub struct Storage { pub v: Ghost<StoreView> }
impl Storage {
    pub open spec fn view(&self) -> StoreView { self.v@ }
}
/// Address validity is chain-specific: an uninterpreted predicate.
pub uninterp spec fn api_addr_valid(s: Seq<char>) -> bool;
#[derive(Debug, Clone, Copy)]
pub struct Api { pub dummy: u8 }
impl Api {
    #[verifier::external_body]
    pub fn addr_validate(&self, human: &str) -> (r: StdResult<Addr>)
        ensures
            r is Ok <==> api_addr_valid(human@),
            r is Ok ==> r->Ok_0.0@ == human@,
    { unimplemented!() }
}
#[derive(Clone, Copy)]
pub struct Deps<'a> { pub storage: &'a Storage, pub api: Api }
pub struct DepsMut<'a> { pub storage: &'a mut Storage, pub api: Api }
impl<'a> DepsMut<'a> {
    /// `deps.branch()`: a reborrow of the same storage
    #[verifier::external_body]
    pub fn branch(&mut self) -> (r: DepsMut<'_>)
        ensures
            r.storage@ == old(self).storage@,
            r.api == old(self).api,
            final(self).storage@ == final(r.storage)@,
            final(self).api == old(self).api,
            *final(final(self).storage) == *final(old(self).storage),
    { unimplemented!() }
    pub fn as_ref(&self) -> (r: Deps<'_>)
        ensures r.storage@ == old(self.storage)@, r.api == self.api
    { Deps { storage: &*self.storage, api: self.api } }
}

// ------------------------------------------------------------------------------ messages
#[derive(Debug, Structural, PartialEq, Eq, Clone, Copy)]
pub enum ReplyOn { Always, Error, Success, Never }
#[derive(Debug)]
pub struct Binary(pub Vec<u8>);
impl Binary {
    #[verifier::external_body]
    pub fn from(v: Vec<u8>) -> (r: Binary) ensures r.0 == v { unimplemented!() }
}
/// `&b[..]` (Binary derefs to [u8])
impl core::ops::Index<core::ops::RangeFull> for Binary {
    type Output = [u8];
    #[verifier::external_body]
    fn index(&self, i: core::ops::RangeFull) -> (r: &[u8])
        ensures r@ == self.0@
    { unimplemented!() }
}
impl vstd::std_specs::core::IndexSpecImpl<core::ops::RangeFull> for Binary {
    open spec fn index_req(&self, i: &core::ops::RangeFull) -> bool { true }
}
pub uninterp spec fn base64_str(b: Seq<u8>) -> Seq<char>;
impl DisplayStr for Binary { open spec fn dview(&self) -> Seq<char> { base64_str(self.0@) } }
#[derive(Debug)]
pub enum BankMsg {
    Send { to_address: String, amount: Vec<Coin> },
    Burn { amount: Vec<Coin> },
}
/// `Stargate` is the real variant.  The `Osmo*`/`Tf*`/`Swap*` variants stand for
/// `CosmosMsg::Stargate { type_url: <T>::TYPE_URL, value: <T>.encode() }` produced by
/// osmosis-std's `From<T> for CosmosMsg`; the proto encoding of those types is osmosis-std's.
#[derive(Debug)]
pub enum CosmosMsg {
    Bank(BankMsg),
    Stargate { type_url: String, value: Binary },
    OsmoSend(crate::osmosis_std::types::cosmos::bank::v1beta1::MsgSend),
    OsmoTransfer(crate::osmosis_std::types::ibc::applications::transfer::v1::MsgTransfer),
    OsmoExec(crate::osmosis_std::types::cosmwasm::wasm::v1::MsgExecuteContract),
    TfCreateDenom(crate::osmosis_std::types::osmosis::tokenfactory::v1beta1::MsgCreateDenom),
    TfMint(crate::osmosis_std::types::osmosis::tokenfactory::v1beta1::MsgMint),
    TfBurn(crate::osmosis_std::types::osmosis::tokenfactory::v1beta1::MsgBurn),
    SwapIn(crate::osmosis_std::types::osmosis::poolmanager::v1beta1::MsgSwapExactAmountIn),
    SwapOut(crate::osmosis_std::types::osmosis::poolmanager::v1beta1::MsgSwapExactAmountOut),
}
impl Clone for CosmosMsg {
    #[verifier::external_body]
    fn clone(&self) -> (r: Self) ensures r == *self { unimplemented!() }
}
#[derive(Debug)]
pub struct SubMsg { pub id: u64, pub msg: CosmosMsg, pub gas_limit: Option<u64>, pub reply_on: ReplyOn }
#[derive(Debug)]
pub struct Attribute { pub key: String, pub value: String }
#[verifier::external_body]
pub fn attr(k: impl IntoStr, v: impl IntoStr) -> (r: Attribute) { unimplemented!() }

/// Anything `Response::add_message` accepts (`impl Into<CosmosMsg>`).
pub trait IntoCosmos: Sized {
    spec fn cm(self) -> CosmosMsg;
}
impl IntoCosmos for CosmosMsg { open spec fn cm(self) -> CosmosMsg { self } }
impl IntoCosmos for BankMsg { open spec fn cm(self) -> CosmosMsg { CosmosMsg::Bank(self) } }
impl FromSpecImpl<BankMsg> for CosmosMsg {
    open spec fn obeys_from_spec() -> bool { true }
    open spec fn from_spec(m: BankMsg) -> Self { CosmosMsg::Bank(m) }
}
impl From<BankMsg> for CosmosMsg {
    fn from(m: BankMsg) -> (r: Self) { CosmosMsg::Bank(m) }
}

pub open spec fn plain_sub(m: CosmosMsg) -> SubMsg {
    SubMsg { id: 0, msg: m, gas_limit: None, reply_on: ReplyOn::Never }
}

/// Only the message list is modelled; attributes, events and data do not reach the chain's
/// state machine.
#[derive(Debug)]
pub struct Response { pub messages: Vec<SubMsg> }
impl Response {
    pub open spec fn msgs(self) -> Seq<SubMsg> { self.messages@ }
    #[verifier::external_body]
    pub fn new() -> (r: Response)
        ensures r.msgs() == Seq::empty()
    { unimplemented!() }
    #[verifier::external_body]
    pub fn add_attribute(self, key: impl IntoStr, value: impl IntoStr) -> (r: Response)
        ensures r.msgs() == self.msgs()
    { unimplemented!() }
    #[verifier::external_body]
    pub fn add_attributes(self, a: Vec<Attribute>) -> (r: Response)
        ensures r.msgs() == self.msgs()
    { unimplemented!() }
    #[verifier::external_body]
    pub fn add_message<M: IntoCosmos>(self, msg: M) -> (r: Response)
        ensures r.msgs() == self.msgs().push(plain_sub(msg.cm()))
    { unimplemented!() }
    #[verifier::external_body]
    pub fn add_messages(self, ms: Vec<CosmosMsg>) -> (r: Response)
        ensures r.msgs() == self.msgs() + ms@.map_values(|m: CosmosMsg| plain_sub(m))
    { unimplemented!() }
    #[verifier::external_body]
    pub fn add_submessage(self, msg: SubMsg) -> (r: Response)
        ensures r.msgs() == self.msgs().push(msg)
    { unimplemented!() }
}

// ------------------------------------------------------------------------------ reply
#[derive(Debug)]
pub struct SubMsgResponse { pub events: Vec<u8>, pub data: Option<Binary> }
#[derive(Debug)]
pub enum SubMsgResult { Ok(SubMsgResponse), Err(String) }
#[derive(Debug)]
pub struct Reply { pub id: u64, pub result: SubMsgResult }

/// JSON rendering of a query response: opaque, total for the repo's response types.
pub uninterp spec fn json_of<T>(v: T) -> Seq<u8>;
#[verifier::external_body]
pub fn to_json_binary<T>(v: &T) -> (r: StdResult<Binary>)
    ensures r is Ok, r->Ok_0.0@ == json_of(*v)
{ unimplemented!() }
#[verifier::external_body]
pub fn to_json_string<T>(v: &T) -> (r: StdResult<String>)
    ensures r is Ok
{ unimplemented!() }

#[derive(Debug, Structural, PartialEq, Eq, Clone, Copy)]
pub enum Order { Ascending, Descending }

} // verus!
verus! {
// `String == Addr` (cosmwasm-std addresses.rs: compares with the inner string)
impl PartialEqSpecImpl<Addr> for String {
    open spec fn obeys_eq_spec() -> bool { true }
    open spec fn eq_spec(&self, o: &Addr) -> bool { *self == o.0 }
}
impl PartialEq<Addr> for String {
    #[verifier::external_body]
    fn eq(&self, o: &Addr) -> (r: bool) ensures r == (*self == o.0) { unimplemented!() }
}
}

verus! {
// ------------------------------------------------------------------------------ Uint256 and more Uint128 / Decimal API
// Not used by the pinned code; modelled so that arithmetic rewritten with these std-like types
// stays inside the verified subset.  Semantics from cosmwasm-std 1.5 math/{uint128,uint256,decimal}.rs:
// the operators panic on overflow / underflow / zero divisor, the checked_* forms return Err.
#[derive(Debug)]
pub struct DivideByZeroError { pub dummy: u8 }
#[derive(Debug)]
pub struct ConversionOverflowError { pub dummy: u8 }
pub use crate::cw_uint256::*;
impl Uint128 {
    /// `Uint128::full_mul`: the exact 256-bit product
    #[verifier::external_body]
    pub fn full_mul(self, rhs: impl IntoU128) -> (r: Uint256) ensures r.v() == self.0 as nat * rhs.uv() as nat { unimplemented!() }
    /// `Uint128::try_from(Uint256)`
    #[verifier::external_body]
    pub fn try_from(x: Uint256) -> (r: Result<Uint128, ConversionOverflowError>)
        ensures r is Ok <==> x.v() <= u128::MAX, r is Ok ==> r->Ok_0.0 as nat == x.v()
    { unimplemented!() }
    pub fn checked_div(self, o: Uint128) -> (r: Result<Uint128, DivideByZeroError>)
        ensures r is Ok <==> o.0 != 0, r is Ok ==> r->Ok_0.0 == self.0 / o.0
    { if o.0 == 0 { Err(DivideByZeroError { dummy: 0 }) } else { Ok(Uint128(self.0 / o.0)) } }
    pub fn checked_rem(self, o: Uint128) -> (r: Result<Uint128, DivideByZeroError>)
        ensures r is Ok <==> o.0 != 0, r is Ok ==> r->Ok_0.0 == self.0 % o.0
    { if o.0 == 0 { Err(DivideByZeroError { dummy: 0 }) } else { Ok(Uint128(self.0 % o.0)) } }
    pub fn abs_diff(self, o: Uint128) -> (r: Uint128)
        ensures r.0 == (if self.0 >= o.0 { (self.0 - o.0) as u128 } else { (o.0 - self.0) as u128 })
    { if self.0 >= o.0 { Uint128(self.0 - o.0) } else { Uint128(o.0 - self.0) } }
    pub fn min(self, o: Uint128) -> (r: Uint128) ensures r.0 == (if self.0 <= o.0 { self.0 } else { o.0 })
    { if self.0 <= o.0 { self } else { o } }
    pub fn max(self, o: Uint128) -> (r: Uint128) ensures r.0 == (if self.0 >= o.0 { self.0 } else { o.0 })
    { if self.0 >= o.0 { self } else { o } }
    /// `Uint128::mul_ceil(Decimal)`: ceil(self * d); panics on overflow
    #[verifier::external_body]
    pub fn mul_ceil(self, d: Decimal) -> (r: Uint128)
        requires muldiv(self.0 as nat, d.0 as nat, DECIMAL_FRACTIONAL()) < u128::MAX,
        ensures r.0 as nat == (if (self.0 as nat * d.0 as nat) % DECIMAL_FRACTIONAL() == 0 { muldiv(self.0 as nat, d.0 as nat, DECIMAL_FRACTIONAL()) } else { muldiv(self.0 as nat, d.0 as nat, DECIMAL_FRACTIONAL()) + 1 }),
    { unimplemented!() }
    #[verifier::external_body]
    pub fn checked_mul_floor(self, d: Decimal) -> (r: Result<Uint128, CheckedMultiplyRatioError>)
        ensures
            r is Ok <==> muldiv(self.0 as nat, d.0 as nat, DECIMAL_FRACTIONAL()) <= u128::MAX,
            r is Ok ==> r->Ok_0.0 as nat == muldiv(self.0 as nat, d.0 as nat, DECIMAL_FRACTIONAL()),
    { unimplemented!() }
}
impl vstd::std_specs::ops::RemSpecImpl<Uint128> for Uint128 {
    open spec fn obeys_rem_spec() -> bool { true }
    open spec fn rem_req(self, o: Uint128) -> bool { o.0 != 0 }
    open spec fn rem_spec(self, o: Uint128) -> Uint128 { Uint128(self.0 % o.0) }
}
impl core::ops::Rem<Uint128> for Uint128 {
    type Output = Uint128;
    fn rem(self, o: Uint128) -> (r: Uint128) { Uint128(self.0 % o.0) }
}
impl vstd::std_specs::ops::SubAssignSpecImpl<Uint128> for Uint128 {
    open spec fn obeys_sub_assign_spec() -> bool { true }
    open spec fn sub_assign_req(&self, o: Uint128) -> bool { self.0 >= o.0 }
    open spec fn sub_assign_spec(&self, o: Uint128) -> &Uint128 { &Uint128((self.0 - o.0) as u128) }
}
impl core::ops::SubAssign<Uint128> for Uint128 {
    fn sub_assign(&mut self, o: Uint128) { self.0 = self.0 - o.0; }
}
impl Decimal {
    /// decimal.rs `percent` / `permille`: x/100, x/1000
    pub fn percent(x: u64) -> (r: Decimal) ensures r.0 == x as u128 * 10_000_000_000_000_000 { Decimal(x as u128 * 10_000_000_000_000_000) }
    pub fn permille(x: u64) -> (r: Decimal) ensures r.0 == x as u128 * 1_000_000_000_000_000 { Decimal(x as u128 * 1_000_000_000_000_000) }
    pub fn atomics(&self) -> (r: Uint128) ensures r.0 == self.0 { Uint128(self.0) }
    #[verifier::external_body]
    pub fn checked_from_ratio(numerator: impl IntoU128, denominator: impl IntoU128) -> (r: Result<Decimal, CheckedMultiplyRatioError>)
        ensures
            r is Ok <==> denominator.uv() != 0 && decimal_ratio(numerator.uv() as nat, denominator.uv() as nat) <= u128::MAX,
            r is Ok ==> r->Ok_0.av() as nat == decimal_ratio(numerator.uv() as nat, denominator.uv() as nat),
    { unimplemented!() }
    pub fn to_uint_floor(self) -> (r: Uint128) ensures r.0 == self.0 / 1_000_000_000_000_000_000 { Uint128(self.0 / 1_000_000_000_000_000_000) }
}
impl PartialOrdSpecImpl for Decimal {
    open spec fn obeys_partial_cmp_spec() -> bool { true }
    open spec fn partial_cmp_spec(&self, o: &Decimal) -> Option<core::cmp::Ordering> {
        if self.0 < o.0 { Some(core::cmp::Ordering::Less) } else if self.0 == o.0 { Some(core::cmp::Ordering::Equal) } else { Some(core::cmp::Ordering::Greater) }
    }
}
impl PartialOrd for Decimal {
    fn partial_cmp(&self, o: &Decimal) -> (r: Option<core::cmp::Ordering>) {
        if self.0 < o.0 { Some(core::cmp::Ordering::Less) } else if self.0 == o.0 { Some(core::cmp::Ordering::Equal) } else { Some(core::cmp::Ordering::Greater) }
    }
}
}
