// prost: the wire encoding is uninterpreted.  Assumption: `decode(encode(m)) == m`
// (injective encoding) and prost-derive honours the `#[prost(..)]` attributes.
use vstd::prelude::*;
verus! {
#[derive(Debug)]
pub struct EncodeError { pub dummy: u8 }
#[derive(Debug)]
pub struct DecodeError { pub dummy: u8 }
/// canonical protobuf bytes of a message value
pub uninterp spec fn proto_bytes<M>(m: M) -> Seq<u8>;
pub broadcast axiom fn axiom_proto_injective<M>(a: M, b: M)
    requires #[trigger] proto_bytes(a) == #[trigger] proto_bytes(b),
    ensures a == b;
pub trait Message: Sized {}
}
