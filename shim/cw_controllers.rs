// cw-controllers 1.1.2 `Admin` = Item<Option<Addr>>.
use vstd::prelude::*;
use vstd::std_specs::convert::FromSpecImpl;
use crate::cosmwasm_std::{Addr, Deps, DepsMut, StdError, StdResult, Storage};
use crate::vspec::StoreView;
verus! {
#[derive(Debug)]
pub enum AdminError { Std(StdError), NotAdmin {} }
#[derive(Debug)]
pub struct Admin<'a> { pub ns: &'a str }
/// `is_admin`: the stored option equals `Some(caller)`
pub open spec fn is_admin(s: StoreView, a: Addr) -> bool { s.admin == Some(Some(a)) }
impl<'a> Admin<'a> {
    pub const fn new(ns: &'a str) -> (r: Self) { Admin { ns } }
    /// admin.rs: `if !self.is_admin(deps, caller)? { Err(NotAdmin) } else { Ok(()) }`;
    /// `is_admin` loads the item (Err when it was never set).
    #[verifier::external_body]
    pub fn assert_admin(&self, deps: Deps, caller: &Addr) -> (r: Result<(), AdminError>)
        ensures r is Ok <==> is_admin(deps.storage@, *caller)
    { unimplemented!() }
    #[verifier::external_body]
    pub fn set(&self, deps: DepsMut, admin: Option<Addr>) -> (r: StdResult<()>)
        ensures r is Ok, final(deps.storage)@ == (StoreView { admin: Some(admin), ..old(deps.storage)@ })
    { unimplemented!() }
    #[verifier::external_body]
    pub fn get(&self, deps: Deps) -> (r: StdResult<Option<Addr>>)
        ensures match r { Ok(v) => deps.storage@.admin == Some(v), Err(_) => deps.storage@.admin is None }
    { unimplemented!() }
}
}
