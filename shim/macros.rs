// ---- shim macros (outside verus!; expanded before Verus sees the code) ----
// `ensure!` is cosmwasm_std's macro, same expansion.
macro_rules! ensure {
    ($cond:expr, $e:expr $(,)?) => {
        if !($cond) {
            return Err(core::convert::From::from($e));
        }
    };
}
// R3: `format!` with plain `{}` placeholders becomes string concatenation with a spec.
macro_rules! sfmt {
    ($a:expr) => { crate::std_ext::dstr(&$a) };
    ($a:expr, $($r:expr),+) => { crate::std_ext::sconcat(crate::std_ext::dstr(&$a), sfmt!($($r),+)) };
}
