// semver::Version – parsing is partial, versions are totally ordered.  `rank` is an abstract
// position in that order (a function of the parsed text).
use vstd::prelude::*;
use vstd::std_specs::cmp::{PartialEqSpecImpl, PartialOrdSpecImpl};
verus! {
#[derive(Debug, Structural, PartialEq, Eq, Clone, Copy)]
pub struct Version { pub rank: u128 }
#[derive(Debug)]
pub struct Error { pub dummy: u8 }
/// the position of a version string in semver precedence order (only meaningful when it parses)
pub uninterp spec fn version_rank(s: Seq<char>) -> u128;
impl core::str::FromStr for Version {
    type Err = Error;
    #[verifier::external_body]
    fn from_str(s: &str) -> (r: Result<Version, Error>)
        ensures r is Ok ==> r->Ok_0.rank == version_rank(s@)
    { unimplemented!() }
}
impl PartialOrdSpecImpl for Version {
    open spec fn obeys_partial_cmp_spec() -> bool { true }
    open spec fn partial_cmp_spec(&self, o: &Version) -> Option<core::cmp::Ordering> {
        if self.rank < o.rank { Some(core::cmp::Ordering::Less) }
        else if self.rank == o.rank { Some(core::cmp::Ordering::Equal) }
        else { Some(core::cmp::Ordering::Greater) }
    }
}
impl PartialOrd for Version {
    fn partial_cmp(&self, o: &Version) -> (r: Option<core::cmp::Ordering>) {
        if self.rank < o.rank { Some(core::cmp::Ordering::Less) }
        else if self.rank == o.rank { Some(core::cmp::Ordering::Equal) }
        else { Some(core::cmp::Ordering::Greater) }
    }
    fn lt(&self, o: &Version) -> (r: bool) { self.rank < o.rank }
    fn le(&self, o: &Version) -> (r: bool) { self.rank <= o.rank }
    fn gt(&self, o: &Version) -> (r: bool) { self.rank > o.rank }
    fn ge(&self, o: &Version) -> (r: bool) { self.rank >= o.rank }
}
}
