// serde_json::to_string – uninterpreted, injective rendering per value.
use vstd::prelude::*;
verus! {
#[derive(Debug)]
pub struct Error { pub dummy: u8 }
pub trait JsonSpec { spec fn json(&self) -> Seq<char>; }
#[verifier::external_body]
pub fn to_string<T: JsonSpec>(v: &T) -> (r: Result<String, Error>)
    ensures r is Ok, r->Ok_0@ == v.json()
{ unimplemented!() }
}
