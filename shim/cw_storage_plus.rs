// Assumed contracts for cw-storage-plus 1.2.0: typed reads / writes of the abstract store.
// Assumptions: a stored value deserialises as the type it was written with; `Map<u64, _>`
// iterates in ascending (descending) numeric key order; `Bound::exclusive` is strict;
// `IndexedMap` keeps its `UniqueIndex` in step with the primary map for writes through its
// own API.  JSON / key encoding and namespace strings are cw-storage-plus's business.
use vstd::prelude::*;
use vstd::std_specs::iter::{IteratorSpec, IteratorSpecImpl};
use crate::cosmwasm_std::{Storage, StdError, StdResult, Order};
use crate::serde::Serialize;
use core::marker::PhantomData;
use crate::std_ext::SMap;
verus! {

// ------------------------------------------------------------------------------ Item
#[derive(Debug)]
pub struct Item<'a, T> { pub ns: &'a str, pub p: PhantomData<T> }
impl<'a, T: Serialize> Item<'a, T> {
    pub const fn new(ns: &'a str) -> (r: Self) { Item { ns, p: PhantomData } }
    #[verifier::external_body]
    pub fn load(&self, store: &Storage) -> (r: StdResult<T>)
        ensures match r { Ok(v) => T::item_get(store@) == Some(v), Err(_) => T::item_get(store@) is None }
    { unimplemented!() }
    #[verifier::external_body]
    pub fn may_load(&self, store: &Storage) -> (r: StdResult<Option<T>>)
        ensures r is Ok, r->Ok_0 == T::item_get(store@)
    { unimplemented!() }
    #[verifier::external_body]
    pub fn save(&self, store: &mut Storage, data: &T) -> (r: StdResult<()>)
        ensures r is Ok, final(store)@ == T::item_put(old(store)@, Some(*data))
    { unimplemented!() }
    /// item.rs: `let input = self.load(store)?; let output = action(input)?; self.save(store, &output)?; Ok(output)`
    #[verifier::external_body]
    pub fn update<A, E>(&self, store: &mut Storage, action: A) -> (r: Result<T, E>)
        where A: FnOnce(T) -> Result<T, E>, E: From<StdError>
        requires
            T::item_get(old(store)@) is Some ==> action.requires((T::item_get(old(store)@)->Some_0,)),
        ensures
            T::item_get(old(store)@) is None ==> r is Err && final(store)@ == old(store)@,
            T::item_get(old(store)@) is Some ==> action.ensures((T::item_get(old(store)@)->Some_0,), r),
            T::item_get(old(store)@) is Some && r is Ok ==> final(store)@ == T::item_put(old(store)@, Some(r->Ok_0)),
            r is Err ==> final(store)@ == old(store)@,
    { unimplemented!() }
}

// ------------------------------------------------------------------------------ keys
/// Keys of the plain maps in this repo are all `u64`.
pub trait Bounder<'a>: Sized {
    spec fn k64(self) -> u64;
}
impl<'a> Bounder<'a> for u64 { open spec fn k64(self) -> u64 { self } }
pub trait KeyDeserialize { type Output; }
impl KeyDeserialize for u64 { type Output = u64; }

#[derive(Debug)]
pub enum Bound<'a, K> { Inclusive((K, PhantomData<&'a bool>)), Exclusive((K, PhantomData<&'a bool>)) }
impl<'a, K> Bound<'a, K> {
    pub fn exclusive(k: K) -> (r: Self)
        ensures r == Bound::Exclusive((k, PhantomData::<&'a bool>))
    { Bound::Exclusive((k, PhantomData)) }
    pub fn inclusive(k: K) -> (r: Self)
        ensures r == Bound::Inclusive((k, PhantomData::<&'a bool>))
    { Bound::Inclusive((k, PhantomData)) }
}
pub open spec fn above<'a, K: Bounder<'a>>(b: Option<Bound<'a, K>>, k: u64) -> bool {
    match b { None => true, Some(Bound::Inclusive((m, _))) => m.k64() <= k, Some(Bound::Exclusive((m, _))) => m.k64() < k }
}
pub open spec fn below<'a, K: Bounder<'a>>(b: Option<Bound<'a, K>>, k: u64) -> bool {
    match b { None => true, Some(Bound::Inclusive((m, _))) => k <= m.k64(), Some(Bound::Exclusive((m, _))) => k < m.k64() }
}

// ------------------------------------------------------------------------------ iterators
pub struct MapRange<K, V> { pub items: Ghost<Seq<StdResult<(K, V)>>> }
impl<K, V> Iterator for MapRange<K, V> {
    type Item = StdResult<(K, V)>;
    #[verifier::external_body]
    fn next(&mut self) -> Option<Self::Item> { unimplemented!() }
}
impl<K, V> IteratorSpecImpl for MapRange<K, V> {
    open spec fn obeys_prophetic_iter_laws(&self) -> bool { true }
    open spec fn remaining(&self) -> Seq<StdResult<(K, V)>> { self.items@ }
    open spec fn will_return_none(&self) -> bool { true }
    open spec fn decrease(&self) -> Option<nat> { Some(self.items@.len()) }
    open spec fn peek(&self, i: int) -> Option<StdResult<(K, V)>> {
        if 0 <= i < self.items@.len() { Some(self.items@[i]) } else { None }
    }
}
impl<K, V> MapRange<K, V> {
    // std adapters with their std meaning (inherent so that the code text is unchanged)
    #[verifier::external_body]
    pub fn take(self, n: usize) -> (r: MapRange<K, V>)
        ensures r.items@ == (if n <= self.items@.len() { self.items@.take(n as int) } else { self.items@ })
    { unimplemented!() }
    #[verifier::external_body]
    pub fn count(self) -> (r: usize)
        ensures r == self.items@.len()
    { unimplemented!() }
    /// `collect::<Result<Vec<_>, _>>()`
    #[verifier::external_body]
    pub fn collect<B: FromResults<(K, V)>>(self) -> (r: B)
        ensures B::collected(self.items@, r)
    { unimplemented!() }
}
/// result of `MapRange::filter_map` (std adapter with its std meaning)
pub struct FilterMapped<B> { pub out: Ghost<Seq<B>> }
impl<B> FilterMapped<B> {
    #[verifier::external_body]
    pub fn collect(self) -> (r: Vec<B>)
        ensures r@ == self.out@
    { unimplemented!() }
}
pub open spec fn opt_some<B>() -> spec_fn(Option<B>) -> bool { |o: Option<B>| o is Some }
pub open spec fn opt_get<B>() -> spec_fn(Option<B>) -> B { |o: Option<B>| o->Some_0 }
impl<K, V> MapRange<K, V> {
    /// std `filter_map`: whenever the closure's result is a function `g` of its argument, the
    /// output is `items.map(g)` with the `None`s dropped, in order.
    #[verifier::external_body]
    pub fn filter_map<B, F: FnMut(StdResult<(K, V)>) -> Option<B>>(self, f: F) -> (r: FilterMapped<B>)
        requires forall|i: int| 0 <= i < self.items@.len() ==> call_requires(f, (#[trigger] self.items@[i],)),
        ensures
            forall|g: spec_fn(StdResult<(K, V)>) -> Option<B>| #![trigger self.items@.map_values(g)]
                (forall|a: StdResult<(K, V)>, o: Option<B>| #[trigger] call_ensures(f, (a,), o) ==> o == g(a))
                ==> r.out@ == self.items@.map_values(g).filter(opt_some::<B>()).map_values(opt_get::<B>()),
    { unimplemented!() }
}
pub trait FromResults<T>: Sized {
    spec fn collected(items: Seq<StdResult<T>>, r: Self) -> bool;
}
impl<T> FromResults<T> for Result<Vec<T>, StdError> {
    open spec fn collected(items: Seq<StdResult<T>>, r: Self) -> bool {
        if forall|i: int| 0 <= i < items.len() ==> items[i] is Ok {
            r is Ok && r->Ok_0@.len() == items.len()
                && forall|i: int| 0 <= i < items.len() ==> r->Ok_0@[i] == #[trigger] items[i]->Ok_0
        } else { r is Err }
    }
}

/// the ordered contents of a `Map<u64, V>` between two bounds
pub open spec fn range_of<'a, K: Bounder<'a>, V>(
    m: SMap<u64, V>, min: Option<Bound<'a, K>>, max: Option<Bound<'a, K>>, order: Order,
    items: Seq<StdResult<(K, V)>>,
) -> bool {
    &&& forall|i: int| 0 <= i < items.len() ==> (#[trigger] items[i]) is Ok
    &&& forall|i: int| 0 <= i < items.len() ==> {
            let k = (#[trigger] items[i])->Ok_0.0.k64();
            m.dom().contains(k) && above(min, k) && below(max, k) && items[i]->Ok_0.1 == m[k] }
    &&& forall|k: u64| #[trigger] m.dom().contains(k) && above(min, k) && below(max, k)
            ==> exists|i: int| 0 <= i < items.len() && (#[trigger] items[i])->Ok_0.0.k64() == k
    &&& forall|i: int, j: int| 0 <= i < j < items.len() ==> match order {
            Order::Ascending => (#[trigger] items[i])->Ok_0.0.k64() < (#[trigger] items[j])->Ok_0.0.k64(),
            Order::Descending => items[i]->Ok_0.0.k64() > items[j]->Ok_0.0.k64() }
}

// ------------------------------------------------------------------------------ Map<u64, V>
#[derive(Debug)]
pub struct Map<'a, K, V> { pub ns: &'a str, pub p: PhantomData<(K, V)> }
impl<'a, K: Bounder<'a>, T: Serialize> Map<'a, K, T> {
    pub const fn new(ns: &'a str) -> (r: Self) { Map { ns, p: PhantomData } }
    #[verifier::external_body]
    pub fn load(&self, store: &Storage, k: K) -> (r: StdResult<T>)
        ensures match r {
            Ok(v) => T::map_get(store@).dom().contains(k.k64()) && T::map_get(store@)[k.k64()] == v,
            Err(_) => !T::map_get(store@).dom().contains(k.k64()) }
    { unimplemented!() }
    #[verifier::external_body]
    pub fn may_load(&self, store: &Storage, k: K) -> (r: StdResult<Option<T>>)
        ensures r is Ok, match r->Ok_0 {
            Some(v) => T::map_get(store@).dom().contains(k.k64()) && T::map_get(store@)[k.k64()] == v,
            None => !T::map_get(store@).dom().contains(k.k64()) }
    { unimplemented!() }
    #[verifier::external_body]
    pub fn save(&self, store: &mut Storage, k: K, data: &T) -> (r: StdResult<()>)
        ensures r is Ok, final(store)@ == T::map_put(old(store)@, T::map_get(old(store)@).insert(k.k64(), *data))
    { unimplemented!() }
    #[verifier::external_body]
    pub fn remove(&self, store: &mut Storage, k: K)
        ensures final(store)@ == T::map_put(old(store)@, T::map_get(old(store)@).remove(k.k64()))
    { unimplemented!() }
    /// map.rs: `let input = self.may_load(store, k)?; let output = action(input)?; self.save(..); Ok(output)`
    #[verifier::external_body]
    pub fn update<A, E>(&self, store: &mut Storage, k: K, action: A) -> (r: Result<T, E>)
        where A: FnOnce(Option<T>) -> Result<T, E>, E: From<StdError>
        requires
            action.requires((map_opt(T::map_get(old(store)@), k.k64()),)),
        ensures
            action.ensures((map_opt(T::map_get(old(store)@), k.k64()),), r),
            r is Ok ==> final(store)@ == T::map_put(old(store)@, T::map_get(old(store)@).insert(k.k64(), r->Ok_0)),
            r is Err ==> final(store)@ == old(store)@,
    { unimplemented!() }
    #[verifier::external_body]
    pub fn range(&self, s: &Storage, min: Option<Bound<'a, K>>, max: Option<Bound<'a, K>>, order: Order)
        -> (r: MapRange<K, T>)
        ensures range_of(T::map_get(s@), min, max, order, r.items@)
    { unimplemented!() }
}
pub open spec fn map_opt<V>(m: SMap<u64, V>, k: u64) -> Option<V> {
    if m.dom().contains(k) { Some(m[k]) } else { None }
}

} // verus!

// ------------------------------------------------------------------------------ IndexedMap
// The repo has one IndexedMap: (batch id, user) -> UnstakeRequest with a unique index
// (user, batch id).  Its abstract contents are `Serialize::imap_get`.
pub mod indexed {
use vstd::prelude::*;
use crate::cosmwasm_std::{Storage, StdError, StdResult, Order};
use crate::serde::Serialize;
use crate::std_ext::SMap;
use core::marker::PhantomData;
use super::{MapRange, Bound};
verus! {
/// A unique secondary index: `idx` is the (ghost) meaning of the index function given to `new`.
#[verifier::reject_recursive_types(IK)]
#[verifier::reject_recursive_types(T)]
pub struct UniqueIndex<'a, IK, T, PK = ()> { pub ns: &'a str, pub idx: Ghost<spec_fn(T) -> IK>, pub p: PhantomData<(IK, T, PK)> }
impl<'a, IK, T, PK> UniqueIndex<'a, IK, T, PK> {
    /// indexes.rs: `UniqueIndex::new(idx_fn, namespace)`; `idx(t)` is the value the (pure) index
    /// function returns on `t`
    #[verifier::external_body]
    pub fn new<F: Fn(&T) -> IK>(idx_fn: F, ns: &'a str) -> (r: Self)
        requires forall|t: T| #[trigger] idx_fn.requires((&t,)),
        ensures forall|t: T| idx_fn.ensures((&t,), #[trigger] (r.idx@)(t)),
    { unimplemented!() }
}
impl<'a, IK, T, PK> core::fmt::Debug for UniqueIndex<'a, IK, T, PK> {
    #[verifier::external_body]
    fn fmt(&self, f: &mut core::fmt::Formatter<'_>) -> core::fmt::Result { unimplemented!() }
}
impl<'a, T, I> IndexedMap<'a, (u64, String), T, I> {
    #[verifier::external_body]
    pub fn new(ns: &'a str, indexes: I) -> (r: Self)
        ensures r.idx == indexes
    { unimplemented!() }
}
#[derive(Debug)]
pub struct IndexedMap<'a, K, T, I> { pub ns: &'a str, pub idx: I, pub p: PhantomData<(K, T)> }

pub open spec fn imap_opt<V>(m: SMap<(u64, String), V>, k: (u64, String)) -> Option<V> {
    if m.dom().contains(k) { Some(m[k]) } else { None }
}

impl<'a, T: Serialize, I> IndexedMap<'a, (u64, String), T, I> {
    #[verifier::external_body]
    pub fn may_load(&self, s: &Storage, k: (u64, String)) -> (r: StdResult<Option<T>>)
        ensures r is Ok, r->Ok_0 == imap_opt(T::imap_get(s@), k)
    { unimplemented!() }
    #[verifier::external_body]
    pub fn load(&self, s: &Storage, k: (u64, String)) -> (r: StdResult<T>)
        ensures match r { Ok(v) => imap_opt(T::imap_get(s@), k) == Some(v), Err(_) => imap_opt(T::imap_get(s@), k) is None }
    { unimplemented!() }
    #[verifier::external_body]
    pub fn save(&self, s: &mut Storage, k: (u64, String), v: &T) -> (r: StdResult<()>)
        ensures
            r is Ok,
            final(s)@ == T::imap_put(old(s)@, T::imap_get(old(s)@).insert(k, *v)),
    { unimplemented!() }
    /// indexed_map.rs `remove`: Ok also when the key is absent
    #[verifier::external_body]
    pub fn remove(&self, s: &mut Storage, k: (u64, String)) -> (r: StdResult<()>)
        ensures
            r is Ok,
            final(s)@ == T::imap_put(old(s)@, T::imap_get(old(s)@).remove(k)),
    { unimplemented!() }
    #[verifier::external_body]
    pub fn update<A, E>(&self, s: &mut Storage, k: (u64, String), action: A) -> (r: Result<T, E>)
        where A: FnOnce(Option<T>) -> Result<T, E>, E: From<StdError>
        requires
            action.requires((imap_opt(T::imap_get(old(s)@), k),)),
        ensures
            action.ensures((imap_opt(T::imap_get(old(s)@), k),), r),
            r is Ok ==> final(s)@ == T::imap_put(old(s)@, T::imap_get(old(s)@).insert(k, r->Ok_0)),
            r is Err ==> final(s)@ == old(s)@,
    { unimplemented!() }
    #[verifier::external_body]
    pub fn prefix(&self, p: u64) -> (r: IPrefix<T>)
        ensures r.batch == p
    { unimplemented!() }
}
/// `idx.by_user.prefix(user)`: the entries whose *value* is indexed under `user`
/// (by the index function the UniqueIndex was built with)
#[verifier::reject_recursive_types(T)]
pub struct UPrefix<T> { pub user: String, pub idx: Ghost<spec_fn(T) -> (String, u64)>, pub p: PhantomData<T> }
impl<'a, T: Serialize, PK> UniqueIndex<'a, (String, u64), T, PK> {
    #[verifier::external_body]
    pub fn prefix(&self, p: String) -> (r: UPrefix<T>)
        ensures r.user == p, r.idx == self.idx
    { unimplemented!() }
    /// whole-index range with a bound: deprecated queries only, left unspecified
    #[verifier::external_body]
    pub fn range(&self, s: &Storage, min: Option<Bound<'a, (String, u64)>>, max: Option<Bound<'a, (String, u64)>>, order: Order)
        -> (r: MapRange<(), T>)
    { unimplemented!() }
}
impl<T: Serialize> UPrefix<T> {
    #[verifier::external_body]
    pub fn range<'a>(&self, s: &Storage, min: Option<Bound<'a, u64>>, max: Option<Bound<'a, u64>>, order: Order)
        -> (r: MapRange<(), T>)
        requires min is None, max is None, order == Order::Ascending,
        ensures
            forall|i: int| 0 <= i < r.items@.len() ==> (#[trigger] r.items@[i]) is Ok
                && (self.idx@)(r.items@[i]->Ok_0.1).0 == self.user
                && T::imap_get(s@).contains_value(r.items@[i]->Ok_0.1),
            forall|k: (u64, String)| #[trigger] T::imap_get(s@).dom().contains(k) && (self.idx@)(T::imap_get(s@)[k]).0 == self.user
                ==> exists|i: int| 0 <= i < r.items@.len() && (#[trigger] r.items@[i])->Ok_0.1 == T::imap_get(s@)[k],
            forall|i: int, j: int| 0 <= i < j < r.items@.len()
                ==> (self.idx@)((#[trigger] r.items@[i])->Ok_0.1).1 < (self.idx@)((#[trigger] r.items@[j])->Ok_0.1).1,
    { unimplemented!() }
}
pub struct IPrefix<T> { pub batch: u64, pub p: PhantomData<T> }
impl<T: Serialize> IPrefix<T> {
    /// entries of one batch, ordered by user string
    #[verifier::external_body]
    pub fn range<'a>(&self, s: &Storage, min: Option<Bound<'a, String>>, max: Option<Bound<'a, String>>, order: Order)
        -> (r: MapRange<String, T>)
        requires min is None, max is None,
        ensures
            forall|i: int| 0 <= i < r.items@.len() ==> (#[trigger] r.items@[i]) is Ok
                && imap_opt(T::imap_get(s@), (self.batch, r.items@[i]->Ok_0.0)) == Some(r.items@[i]->Ok_0.1),
            forall|u: String| #[trigger] T::imap_get(s@).dom().contains((self.batch, u))
                ==> exists|i: int| 0 <= i < r.items@.len() && (#[trigger] r.items@[i])->Ok_0.0 == u,
            forall|i: int, j: int| 0 <= i < j < r.items@.len()
                ==> (#[trigger] r.items@[i])->Ok_0.0 != (#[trigger] r.items@[j])->Ok_0.0,
    { unimplemented!() }
}
} // verus!
}
pub use indexed::{IndexedMap, UniqueIndex};
