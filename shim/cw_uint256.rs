// cosmwasm-std 1.5.9 math/uint256.rs (a wrapper around bnum's U256): assumed contracts of the 256-bit
// unsigned integer.  Value model: v() = hi * 2^128 + lo.  The operators panic on overflow / underflow /
// zero divisor, the checked_* forms return Err.  Shared by the contract worlds (through the cosmwasm_std
// shim) and by world deps_math, where the real Uint128 functions are verified on top of it.
use vstd::prelude::*;
use vstd::std_specs::cmp::{PartialEqSpecImpl, PartialOrdSpecImpl};
use vstd::std_specs::ops::{AddSpecImpl, AddAssignSpecImpl};
use vstd::std_specs::convert::FromSpecImpl;
use crate::cosmwasm_std::{Uint128, OverflowError, DivideByZeroError, ConversionOverflowError};
verus! {
#[derive(Debug, Structural, PartialEq, Eq, Clone, Copy)]
pub struct Uint256 { pub hi: u128, pub lo: u128 }
pub open spec fn POW128() -> nat { 0x1_0000_0000_0000_0000nat * 0x1_0000_0000_0000_0000nat }
impl Uint256 {
    pub open spec fn v(self) -> nat { self.hi as nat * POW128() + self.lo as nat }
    pub open spec fn fits(n: nat) -> bool { n < POW128() * POW128() }
    #[verifier::external_body]
    pub fn zero() -> (r: Uint256) ensures r.v() == 0 { unimplemented!() }
    #[verifier::external_body]
    pub fn one() -> (r: Uint256) ensures r.v() == 1 { unimplemented!() }
    #[verifier::external_body]
    pub fn from_u128(x: u128) -> (r: Uint256) ensures r.v() == x as nat { unimplemented!() }
    #[verifier::external_body]
    pub fn from_uint128(x: Uint128) -> (r: Uint256) ensures r.v() == x.0 as nat { unimplemented!() }
    #[verifier::external_body]
    pub fn is_zero(&self) -> (r: bool) ensures r == (self.v() == 0) { unimplemented!() }
    #[verifier::external_body]
    pub fn checked_add(self, o: Uint256) -> (r: Result<Uint256, OverflowError>)
        ensures r is Ok <==> Self::fits(self.v() + o.v()), r is Ok ==> r->Ok_0.v() == self.v() + o.v()
    { unimplemented!() }
    #[verifier::external_body]
    pub fn checked_sub(self, o: Uint256) -> (r: Result<Uint256, OverflowError>)
        ensures r is Ok <==> self.v() >= o.v(), r is Ok ==> r->Ok_0.v() == self.v() - o.v()
    { unimplemented!() }
    #[verifier::external_body]
    pub fn checked_mul(self, o: Uint256) -> (r: Result<Uint256, OverflowError>)
        ensures r is Ok <==> Self::fits(self.v() * o.v()), r is Ok ==> r->Ok_0.v() == self.v() * o.v()
    { unimplemented!() }
    #[verifier::external_body]
    pub fn checked_div(self, o: Uint256) -> (r: Result<Uint256, DivideByZeroError>)
        ensures r is Ok <==> o.v() != 0, r is Ok ==> r->Ok_0.v() == self.v() / o.v()
    { unimplemented!() }
}
impl FromSpecImpl<Uint128> for Uint256 {
    open spec fn obeys_from_spec() -> bool { false }
    open spec fn from_spec(v: Uint128) -> Self { Uint256 { hi: 0, lo: v.0 } }
}
impl From<Uint128> for Uint256 {
    #[verifier::external_body]
    fn from(v: Uint128) -> (r: Uint256) ensures r.v() == v.0 as nat { unimplemented!() }
}
impl FromSpecImpl<u128> for Uint256 {
    open spec fn obeys_from_spec() -> bool { false }
    open spec fn from_spec(v: u128) -> Self { Uint256 { hi: 0, lo: v } }
}
impl From<u128> for Uint256 {
    #[verifier::external_body]
    fn from(v: u128) -> (r: Uint256) ensures r.v() == v as nat { unimplemented!() }
}
impl FromSpecImpl<u64> for Uint256 {
    open spec fn obeys_from_spec() -> bool { false }
    open spec fn from_spec(v: u64) -> Self { Uint256 { hi: 0, lo: v as u128 } }
}
impl From<u64> for Uint256 {
    #[verifier::external_body]
    fn from(v: u64) -> (r: Uint256) ensures r.v() == v as nat { unimplemented!() }
}
impl AddSpecImpl<Uint256> for Uint256 {
    open spec fn obeys_add_spec() -> bool { false }
    open spec fn add_req(self, o: Uint256) -> bool { Uint256::fits(self.v() + o.v()) }
    open spec fn add_spec(self, o: Uint256) -> Uint256 { self }
}
impl core::ops::Add<Uint256> for Uint256 {
    type Output = Uint256;
    #[verifier::external_body]
    fn add(self, o: Uint256) -> (r: Uint256) ensures r.v() == self.v() + o.v() { unimplemented!() }
}
impl vstd::std_specs::ops::SubSpecImpl<Uint256> for Uint256 {
    open spec fn obeys_sub_spec() -> bool { false }
    open spec fn sub_req(self, o: Uint256) -> bool { self.v() >= o.v() }
    open spec fn sub_spec(self, o: Uint256) -> Uint256 { self }
}
impl core::ops::Sub<Uint256> for Uint256 {
    type Output = Uint256;
    #[verifier::external_body]
    fn sub(self, o: Uint256) -> (r: Uint256) ensures r.v() == self.v() - o.v() { unimplemented!() }
}
impl vstd::std_specs::ops::MulSpecImpl<Uint256> for Uint256 {
    open spec fn obeys_mul_spec() -> bool { false }
    open spec fn mul_req(self, o: Uint256) -> bool { Uint256::fits(self.v() * o.v()) }
    open spec fn mul_spec(self, o: Uint256) -> Uint256 { self }
}
impl core::ops::Mul<Uint256> for Uint256 {
    type Output = Uint256;
    #[verifier::external_body]
    fn mul(self, o: Uint256) -> (r: Uint256) ensures r.v() == self.v() * o.v() { unimplemented!() }
}
impl vstd::std_specs::ops::DivSpecImpl<Uint256> for Uint256 {
    open spec fn obeys_div_spec() -> bool { false }
    open spec fn div_req(self, o: Uint256) -> bool { o.v() != 0 }
    open spec fn div_spec(self, o: Uint256) -> Uint256 { self }
}
impl core::ops::Div<Uint256> for Uint256 {
    type Output = Uint256;
    #[verifier::external_body]
    fn div(self, o: Uint256) -> (r: Uint256) ensures r.v() == self.v() / o.v() { unimplemented!() }
}
impl PartialOrdSpecImpl for Uint256 {
    open spec fn obeys_partial_cmp_spec() -> bool { true }
    open spec fn partial_cmp_spec(&self, o: &Uint256) -> Option<core::cmp::Ordering> {
        if self.v() < o.v() { Some(core::cmp::Ordering::Less) } else if self.v() == o.v() { Some(core::cmp::Ordering::Equal) } else { Some(core::cmp::Ordering::Greater) }
    }
}
impl PartialOrd for Uint256 {
    #[verifier::external_body]
    fn partial_cmp(&self, o: &Uint256) -> (r: Option<core::cmp::Ordering>) { unimplemented!() }
}
} // verus!
