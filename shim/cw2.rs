// cw2 1.1.2: contract name/version item.
use vstd::prelude::*;
use crate::cosmwasm_std::{Storage, StdError, StdResult};
use crate::std_ext::IntoStr;
use crate::vspec::StoreView;
verus! {
#[derive(Debug)]
pub struct ContractVersion { pub contract: String, pub version: String }
#[derive(Debug)]
pub enum VersionError {
    Std(StdError), NotFound, WrongContract { expected: String, found: String }, WrongVersion { expected: String, found: String },
}
#[verifier::external_body]
pub fn set_contract_version(s: &mut Storage, name: impl IntoStr, version: impl IntoStr) -> (r: StdResult<()>)
    ensures
        r is Ok,
        final(s)@.version is Some,
        final(s)@.version->Some_0.contract@ == name.sview(),
        final(s)@.version->Some_0.version@ == version.sview(),
        final(s)@ == (StoreView { version: final(s)@.version, ..old(s)@ }),
{ unimplemented!() }
#[verifier::external_body]
pub fn get_contract_version(s: &Storage) -> (r: StdResult<ContractVersion>)
    ensures match r { Ok(v) => s@.version == Some(v), Err(_) => s@.version is None }
{ unimplemented!() }
/// lib.rs `assert_contract_version`: NotFound / WrongContract / WrongVersion
#[verifier::external_body]
pub fn assert_contract_version(s: &Storage, expected_contract: &str, expected_version: &str) -> (r: Result<(), VersionError>)
    ensures r is Ok <==> (s@.version is Some && s@.version->Some_0.contract@ == expected_contract@
        && s@.version->Some_0.version@ == expected_version@)
{ unimplemented!() }
}
