// cw2 1.1.2: contract name/version item.
use vstd::prelude::*;
use crate::cosmwasm_std::{Storage, StdError, StdResult};
use crate::std_ext::IntoStr;
use crate::vspec::StoreView;
verus! {
#[derive(Debug)]
pub struct ContractVersion { pub contract: String, pub version: String }
#[derive(Debug)]
pub enum VersionError {
    Std(StdError), NotFound, WrongContract { expected: String, found: String }, WrongVersion { expected: String, found: String },
}
#[verifier::external_body]
pub fn set_contract_version(store: &mut Storage, name: impl IntoStr, version: impl IntoStr) -> (r: StdResult<()>)
    ensures
        r is Ok,
        final(store)@.version is Some,
        final(store)@.version->Some_0.contract@ == name.sview(),
        final(store)@.version->Some_0.version@ == version.sview(),
        final(store)@ == (StoreView { version: final(store)@.version, ..old(store)@ }),
{ unimplemented!() }
#[verifier::external_body]
pub fn get_contract_version(store: &Storage) -> (r: StdResult<ContractVersion>)
    ensures match r { Ok(v) => store@.version == Some(v), Err(_) => store@.version is None }
{ unimplemented!() }
/// lib.rs `assert_contract_version`: NotFound / WrongContract / WrongVersion
#[verifier::external_body]
pub fn assert_contract_version(storage: &Storage, expected_contract: &str, expected_version: &str) -> (r: Result<(), VersionError>)
    ensures r is Ok <==> (storage@.version is Some && storage@.version->Some_0.contract@ == expected_contract@
        && storage@.version->Some_0.version@ == expected_version@)
{ unimplemented!() }
}
