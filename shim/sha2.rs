// sha2 – uninterpreted hash with the incremental hashing law.
use vstd::prelude::*;
verus! {
pub uninterp spec fn sha256(d: Seq<u8>) -> Seq<u8>;
pub broadcast axiom fn axiom_sha256_len(d: Seq<u8>) ensures #[trigger] sha256(d).len() == 32;
pub struct Sha256 { pub buf: Ghost<Seq<u8>> }
#[derive(Debug)]
pub struct Output { pub b: [u8; 32] }
pub trait AsBytes { spec fn bview(&self) -> Seq<u8>; }
impl<'a> AsBytes for &'a [u8] { open spec fn bview(&self) -> Seq<u8> { (*self)@ } }
impl AsBytes for Output { open spec fn bview(&self) -> Seq<u8> { self.b@ } }
pub trait Digest: Sized {
    fn default() -> Self;
}
impl Sha256 {
    #[verifier::external_body]
    pub fn default() -> (r: Sha256) ensures r.buf@ == Seq::<u8>::empty() { unimplemented!() }
    #[verifier::external_body]
    pub fn update<B: AsBytes>(&mut self, data: B)
        ensures final(self).buf@ == old(self).buf@ + data.bview()
    { unimplemented!() }
    #[verifier::external_body]
    pub fn finalize(self) -> (r: Output)
        ensures r.b@ == sha256(self.buf@)
    { unimplemented!() }
}
impl Output {
    pub fn into(self) -> (r: [u8; 32]) ensures r == self.b { self.b }
}
}
