// vreplay — search for a concrete failing input on the REAL crates.
//
// Verus gives no counterexample.  When a check reports a violation, this driver runs the real
// handlers (path dependency on the repo's `staking` / `treasury` crates, `library` feature, mock
// storage) on boundary-biased + seeded random inputs and compares what they do with an
// executable transliteration of the clause families of the contracts (totals, message amounts,
// recipients, authorisation, halting, timing, oracle rates, payouts, recovery sums, panics).
// A mismatch is a witness: family, case number, seed and a description; `vreplay rerun` runs the
// same case again.  This is a search, not a proof: not finding a witness decides nothing.
//
// usage: vreplay search <family|all> <seed> <cases>      -> prints one JSON line (witness or null)
//        vreplay rerun  <family> <seed> <case>           -> exit 1 while the case still fails

use cosmwasm_std::testing::{mock_dependencies, mock_env, mock_info, MockApi, MockQuerier, MockStorage};
use cosmwasm_std::{coins, BankMsg, Coin, CosmosMsg, Env, OwnedDeps, Response, Storage, Timestamp, Uint128};
use prost::Message;
use staking::contract::{execute, instantiate};
use staking::msg::{ExecuteMsg, InstantiateMsg};
use staking::state::{Config, State, BATCHES, CONFIG, PENDING_BATCH_ID, STATE};
use staking::types::{UnsafeNativeChainConfig, UnsafeProtocolChainConfig, UnsafeProtocolFeeConfig};
use std::panic::{catch_unwind, AssertUnwindSafe};

type Deps = OwnedDeps<MockStorage, MockApi, MockQuerier>;

const IBC_DENOM: &str = "ibc/C3E53D20BC7A4CC993B17C7971F8ECD06A433C10B6A96F4C4C3714F0624C56DA";
const CHANNEL: &str = "channel-123";

#[derive(Clone, Debug)]
struct Addrs { admin: String, user: String, user2: String, oracle: String, staker: String, collector: String, native_user: String, val: String }

fn b32(prefix: &str, n: u8) -> String {
    use bech32::ToBase32;
    bech32::encode(prefix, vec![n; 20].to_base32(), bech32::Variant::Bech32).unwrap()
}

fn addrs(pp: &str, np: &str) -> Addrs {
    Addrs { admin: b32(pp, 1), user: b32(pp, 2), user2: b32(pp, 3), oracle: b32(pp, 4), staker: b32(np, 5), collector: b32(np, 6),
            native_user: b32(np, 7), val: b32(&format!("{np}valoper"), 8) }
}


struct Rng(u64);
impl Rng {
    fn next(&mut self) -> u64 {
        let mut x = self.0;
        x ^= x >> 12;
        x ^= x << 25;
        x ^= x >> 27;
        self.0 = x;
        x.wrapping_mul(0x2545F4914F6CDD1D)
    }
    fn pick<T: Copy>(&mut self, v: &[T]) -> T {
        v[(self.next() % v.len() as u64) as usize]
    }
    fn amount(&mut self) -> u128 {
        let grid = [1u128, 2, 3, 99, 100, 101, 333, 500, 1_000, 1_001, 66_667, 1_000_000, 7_777_777, 10u128.pow(12), 10u128.pow(20), 10u128.pow(27)];
        if self.next() % 3 == 0 {
            (self.next() as u128 % 2_000_000) + 1
        } else {
            self.pick(&grid)
        }
    }
}

#[derive(Clone, Debug)]
struct Scn {
    pp: &'static str,
    np: &'static str,
    rewards0: u128,
    oracle: bool,
    treasury: bool,
    fee_rate: u128,
    tn: u128,
    tl: u128,
    fees: u128,
    min: u128,
}

fn scenario(r: &mut Rng) -> Scn {
    let totals = [(0u128, 0u128), (1_000, 1_000), (1_500, 1_000), (1_000, 1_500), (1_000_000, 1_000), (1_075_000, 1_004_672),
                  (10u128.pow(27), 10u128.pow(27) / 3), (3, 2), (7, 1000), (5_000, 0)];
    let (tn, tl) = r.pick(&totals);
    let (pp, np) = r.pick(&[("osmo", "celestia"), ("osmo", "celestia"), ("osmo", "celestia"), ("milk", "celestia"), ("osmo", "osmo"), ("init", "init")]);
    Scn {
        pp,
        np,
        rewards0: r.pick(&[0u128, 0, 777]),
        oracle: r.next() % 2 == 0,
        treasury: r.next() % 2 == 0,
        fee_rate: r.pick(&[0u128, 1, 10_000, 33_333, 100_000, 150_000, u128::MAX, 1u128 << 100]),
        tn,
        tl,
        fees: r.pick(&[0u128, 100, 12_345]),
        min: r.pick(&[1u128, 100]),
    }
}

fn init(s: &Scn) -> Deps {
    let a = addrs(s.pp, s.np);
    #[allow(non_snake_case, unused_variables)]
    let (ADMIN, USER, USER2, ORACLE, STAKER, COLLECTOR, NATIVE_USER) = (a.admin.as_str(), a.user.as_str(), a.user2.as_str(), a.oracle.as_str(), a.staker.as_str(), a.collector.as_str(), a.native_user.as_str());
    let VAL1 = a.val.as_str();
    let mut deps = mock_dependencies();
    let msg = InstantiateMsg {
        native_chain_config: UnsafeNativeChainConfig {
            token_denom: "utia".into(),
            account_address_prefix: s.np.into(),
            validator_address_prefix: format!("{}valoper", s.np),
            validators: vec![VAL1.into()],
            unbonding_period: 1_209_600,
            staker_address: STAKER.into(),
            reward_collector_address: COLLECTOR.into(),
        },
        protocol_chain_config: UnsafeProtocolChainConfig {
            account_address_prefix: s.pp.into(),
            ibc_token_denom: IBC_DENOM.into(),
            ibc_channel_id: CHANNEL.into(),
            oracle_address: if s.oracle { Some(ORACLE.into()) } else { None },
            minimum_liquid_stake_amount: Uint128::new(s.min),
        },
        protocol_fee_config: UnsafeProtocolFeeConfig {
            dao_treasury_fee: Uint128::new(s.fee_rate),
            treasury_address: if s.treasury { Some(USER2.into()) } else { None },
        },
        liquid_stake_token_denom: "umilkTIA".into(),
        batch_period: 86_400,
        monitors: vec![USER2.into()],
    };
    instantiate(deps.as_mut(), mock_env(), mock_info(ADMIN, &[]), msg).expect("instantiate");
    let mut c: Config = CONFIG.load(&deps.storage).unwrap();
    c.stopped = false;
    CONFIG.save(&mut deps.storage, &c).unwrap();
    let mut st: State = STATE.load(&deps.storage).unwrap();
    st.total_native_token = Uint128::new(s.tn);
    st.total_liquid_stake_token = Uint128::new(s.tl);
    st.total_fees = Uint128::new(s.fees);
    st.total_reward_amount = Uint128::new(s.rewards0);
    STATE.save(&mut deps.storage, &st).unwrap();
    deps
}

fn dump(s: &dyn Storage) -> Vec<(Vec<u8>, Vec<u8>)> {
    s.range(None, None, cosmwasm_std::Order::Ascending).collect()
}

fn muldiv(a: u128, b: u128, c: u128) -> Option<u128> {
    // floor(a*b/c) in 256 bits via Uint128::checked_multiply_ratio
    Uint128::new(a).checked_multiply_ratio(b, c).ok().map(|x| x.u128())
}

#[derive(Debug)]
enum Sent {
    Mint { amount: String, denom: String, to: String },
    Burn { amount: String, denom: String },
    Transfer { amount: String, denom: String, receiver: String, sub_id: u64 },
    Send { amount: String, denom: String, to: String },
    BankSend { amount: u128, denom: String, to: String },
    Oracle { purchase: String, redemption: String },
    Other(String),
}

/// the miniwasm token-factory messages, written from miniwasm/tokenfactory/v1/tx.proto (independent of the repo's bindings)
mod mw {
    #[derive(Clone, PartialEq, ::prost::Message)]
    pub struct Coin { #[prost(string, tag = "1")] pub denom: String, #[prost(string, tag = "2")] pub amount: String }
    #[derive(Clone, PartialEq, ::prost::Message)]
    pub struct MsgCreateDenom { #[prost(string, tag = "1")] pub sender: String, #[prost(string, tag = "2")] pub subdenom: String }
    #[derive(Clone, PartialEq, ::prost::Message)]
    pub struct MsgMint { #[prost(string, tag = "1")] pub sender: String, #[prost(message, optional, tag = "2")] pub amount: Option<Coin>, #[prost(string, tag = "3")] pub mint_to_address: String }
    #[derive(Clone, PartialEq, ::prost::Message)]
    pub struct MsgBurn { #[prost(string, tag = "1")] pub sender: String, #[prost(message, optional, tag = "2")] pub amount: Option<Coin> }
}

/// the token-factory module of the chain this build targets
const TF: &str = if cfg!(feature = "miniwasm") { "/miniwasm.tokenfactory.v1." } else { "/osmosis.tokenfactory.v1beta1." };

fn decode(resp: &Response) -> Vec<Sent> {
    use osmosis_std::types::cosmos::bank::v1beta1::MsgSend;
    use osmosis_std::types::cosmwasm::wasm::v1::MsgExecuteContract;
    use osmosis_std::types::ibc::applications::transfer::v1::MsgTransfer;
    use osmosis_std::types::osmosis::tokenfactory::v1beta1::{MsgBurn, MsgMint};
    let mut out = vec![];
    for sm in &resp.messages {
        out.push(match &sm.msg {
            CosmosMsg::Stargate { type_url, value } => match type_url.as_str() {
                "/osmosis.tokenfactory.v1beta1.MsgMint" if !cfg!(feature = "miniwasm") => {
                    let m = MsgMint::decode(value.as_slice()).unwrap();
                    let c = m.amount.unwrap();
                    Sent::Mint { amount: c.amount, denom: c.denom, to: m.mint_to_address }
                }
                "/osmosis.tokenfactory.v1beta1.MsgBurn" if !cfg!(feature = "miniwasm") => {
                    let m = MsgBurn::decode(value.as_slice()).unwrap();
                    let c = m.amount.unwrap();
                    Sent::Burn { amount: c.amount, denom: c.denom }
                }
                "/miniwasm.tokenfactory.v1.MsgMint" => match mw::MsgMint::decode(value.as_slice()) {
                    Ok(m) if m.encode_to_vec() == value.as_slice() && m.amount.is_some() && m.sender == mock_env().contract.address.as_str() => { let c = m.amount.unwrap(); Sent::Mint { amount: c.amount, denom: c.denom, to: m.mint_to_address } }
                    other => Sent::Other(format!("token-factory mint message is not the canonical encoding of a MsgMint by the contract: {other:?}")),
                },
                "/miniwasm.tokenfactory.v1.MsgBurn" => match mw::MsgBurn::decode(value.as_slice()) {
                    Ok(m) if m.encode_to_vec() == value.as_slice() && m.amount.is_some() && m.sender == mock_env().contract.address.as_str() => { let c = m.amount.unwrap(); Sent::Burn { amount: c.amount, denom: c.denom } }
                    other => Sent::Other(format!("token-factory burn message is not the canonical encoding of a MsgBurn by the contract: {other:?}")),
                },
                "/ibc.applications.transfer.v1.MsgTransfer" => {
                    let m = MsgTransfer::decode(value.as_slice()).unwrap();
                    let c = m.token.unwrap();
                    Sent::Transfer { amount: c.amount, denom: c.denom, receiver: m.receiver, sub_id: sm.id }
                }
                "/cosmos.bank.v1beta1.MsgSend" => {
                    let m = MsgSend::decode(value.as_slice()).unwrap();
                    let c = m.amount[0].clone();
                    Sent::Send { amount: c.amount, denom: c.denom, to: m.to_address }
                }
                "/cosmwasm.wasm.v1.MsgExecuteContract" => {
                    let m = MsgExecuteContract::decode(value.as_slice()).unwrap();
                    let v: serde_json::Value = serde_json::from_slice(&m.msg).unwrap();
                    Sent::Oracle {
                        purchase: v["post_rates"]["purchase_rate"].as_str().unwrap_or("").to_string(),
                        redemption: v["post_rates"]["redemption_rate"].as_str().unwrap_or("").to_string(),
                    }
                }
                other => Sent::Other(other.to_string()),
            },
            CosmosMsg::Bank(BankMsg::Send { to_address, amount }) => {
                Sent::BankSend { amount: amount[0].amount.u128(), denom: amount[0].denom.clone(), to: to_address.clone() }
            }
            other => Sent::Other(format!("{other:?}")),
        });
    }
    out
}

fn rates(tn: u128, tl: u128) -> (String, String) {
    use cosmwasm_std::Decimal;
    if tl == 0 {
        (Decimal::zero().to_string(), Decimal::zero().to_string())
    } else {
        (Decimal::from_ratio(tn, tl).to_string(), Decimal::from_ratio(tl, tn).to_string())
    }
}

/// the contracts' domain: exchange rates stay below 100000 in both directions (DESIGN.md, DOM)
fn in_dom(tn: u128, tl: u128) -> bool {
    tl == 0 || (tn != 0 && tn / 100_000 < tl && tl / 100_000 < tn)
}

fn check_state_query(deps: &Deps) -> Result<(), String> {
    use staking::msg::{QueryMsg, StateResponse};
    let st = STATE.load(&deps.storage).unwrap();
    if !in_dom(st.total_native_token.u128(), st.total_liquid_stake_token.u128()) { return Ok(()); }
    let bin = staking::contract::query(deps.as_ref(), mock_env(), QueryMsg::State {}).map_err(|e| format!("State query failed: {e}"))?;
    let r: StateResponse = cosmwasm_std::from_json(&bin).unwrap();
    let (_, pur) = rates(st.total_native_token.u128(), st.total_liquid_stake_token.u128());
    if r.rate.to_string() != pur { return Err(format!("State query reports rate {} but the purchase rate (LST per staked) is {pur}", r.rate)); }
    if r.total_native_token != st.total_native_token || r.total_liquid_stake_token != st.total_liquid_stake_token || r.total_fees != st.total_fees || r.total_reward_amount != st.total_reward_amount { return Err(format!("State query reports {r:?}, stored {st:?}")); }
    Ok(())
}

fn check_oracle(s: &Scn, sent: &[Sent], deps: &Deps) -> Result<(), String> {
    let st = STATE.load(&deps.storage).unwrap();
    let n = sent.iter().filter(|m| matches!(m, Sent::Oracle { .. })).count();
    if !s.oracle {
        return if n == 0 { Ok(()) } else { Err("an oracle message was posted although no oracle is configured".into()) };
    }
    if n != 1 {
        return Err(format!("expected exactly one oracle message, got {n}"));
    }
    let (red, pur) = rates(st.total_native_token.u128(), st.total_liquid_stake_token.u128());
    for m in sent {
        if let Sent::Oracle { purchase, redemption } = m {
            if *purchase != pur || *redemption != red {
                return Err(format!("oracle posted purchase={purchase} redemption={redemption}, post-transaction rates are purchase={pur} redemption={red}"));
            }
        }
    }
    Ok(())
}

// ------------------------------------------------------------------ families
fn fam_stake(r: &mut Rng) -> Result<(), String> {
    let s = scenario(r);
    let a = addrs(s.pp, s.np);
    #[allow(non_snake_case, unused_variables)]
    let (ADMIN, USER, USER2, ORACLE, STAKER, COLLECTOR, NATIVE_USER) = (a.admin.as_str(), a.user.as_str(), a.user2.as_str(), a.oracle.as_str(), a.staker.as_str(), a.collector.as_str(), a.native_user.as_str());
    let mut deps = init(&s);
    let amount = r.amount();
    let kind = r.next() % 4;
    let (mint_to, native) = match kind {
        0 => (None, false),
        1 => (Some(USER2.to_string()), false),
        _ => (Some(NATIVE_USER.to_string()), true),
    };
    let expected = match r.next() % 3 { 0 => None, 1 => Some(Uint128::zero()), _ => Some(Uint128::new(r.amount())) };
    let flag = r.pick(&[None, Some(true), Some(false)]);
    let native = if s.pp == s.np { flag == Some(true) } else { native };
    let msg = ExecuteMsg::LiquidStake { mint_to: mint_to.clone(), transfer_to_native_chain: flag, expected_mint_amount: expected };
    // model
    let swept = s.tl == 0 && s.tn != 0;
    let tn0 = if swept { 0 } else { s.tn };
    let m = if tn0 == 0 { Some(amount) } else { muldiv(s.tl, amount, tn0) };
    let ctx = format!("scenario {s:?} amount {amount} mint_to {mint_to:?} transfer_to_native_chain {flag:?} expected {expected:?}");
    let Some(m) = m else { return Ok(()) };
    if !in_dom(tn0 + amount, s.tl.saturating_add(m)) { return Ok(()); }
    check_state_query(&deps).map_err(|e| format!("{e}; {ctx}"))?;
    let before = STATE.load(&deps.storage).unwrap();
    let res = execute(deps.as_mut(), mock_env(), mock_info(USER, &coins(amount, IBC_DENOM)), msg);
    let should_ok = amount >= s.min && m != 0 && expected.map_or(true, |e| m >= e.u128());
    match res {
        Err(e) => {
            if should_ok { return Err(format!("LiquidStake refused ({e}) although amount >= minimum, mint {m} != 0 and >= expected; {ctx}")); }
        }
        Ok(resp) => {
            if !should_ok { return Err(format!("LiquidStake accepted although it must be refused (mint would be {m}); {ctx}")); }
            let mut errs: Vec<String> = vec![];
            let st = STATE.load(&deps.storage).unwrap();
            if st.total_native_token.u128() != tn0 + amount { errs.push(format!("staked total {} != {} ; {ctx}", st.total_native_token, tn0 + amount)); }
            if st.total_liquid_stake_token.u128() != s.tl + m { errs.push(format!("LST total {} != {} ; {ctx}", st.total_liquid_stake_token, s.tl + m)); }
            let fees = if swept { s.fees + s.tn } else { s.fees };
            if st.total_fees.u128() != fees { errs.push(format!("fees {} != {fees}; {ctx}", st.total_fees)); }
            if st.total_reward_amount != before.total_reward_amount { errs.push(format!("reward counter changed; {ctx}")); }
            let sent = decode(&resp);
            let mints: Vec<_> = sent.iter().filter_map(|x| if let Sent::Mint { amount, .. } = x { Some(amount.clone()) } else { None }).collect();
            let notes: Vec<&String> = sent.iter().filter_map(|x| if let Sent::Other(t) = x { if t.starts_with("token-factory") { Some(t) } else { None } } else { None }).collect();
            if mints != vec![m.to_string()] { errs.push(format!("mint messages {mints:?} (module {TF}), expected exactly one of {m} {notes:?}; {ctx}")); }
            let to_staker: Vec<_> = sent.iter().filter_map(|x| if let Sent::Transfer { amount, denom, receiver, .. } = x { if receiver == STAKER { Some((amount.clone(), denom.clone())) } else { None } } else { None }).collect();
            if to_staker != vec![(amount.to_string(), IBC_DENOM.to_string())] { errs.push(format!("transfers to the staker {to_staker:?}, expected one of {amount} staked asset; {ctx}")); }
            let rcpt = mint_to.clone().unwrap_or(USER.to_string());
            let lst_out: Vec<String> = sent.iter().filter_map(|x| match x {
                Sent::Send { amount, to, denom } if denom.starts_with("factory/") => Some(format!("send {amount} to {to}")),
                Sent::Transfer { amount, receiver, denom, .. } if denom.starts_with("factory/") => Some(format!("ibc {amount} to {receiver}")),
                _ => None }).collect();
            let want = if native { format!("ibc {m} to {rcpt}") } else { format!("send {m} to {rcpt}") };
            if lst_out != vec![want.clone()] { errs.push(format!("LST delivery {lst_out:?}, expected [{want}]; {ctx}")); }
            if let Err(e) = check_oracle(&s, &sent, &deps) { errs.push(format!("{e}; {ctx}")); }
            if let Err(e) = check_state_query(&deps) { errs.push(format!("{e}; {ctx}")); }
            if !errs.is_empty() { return Err(errs.join(" || ")); }
        }
    }
    Ok(())
}

/// independent re-computation of the ibc-hooks intermediate account (property C09)
fn hook_p(native: &str, prefix: &str) -> String { hook_pc(native, prefix, CHANNEL) }

fn hook_pc(native: &str, prefix: &str, channel: &str) -> String {
    use bech32::ToBase32;
    use sha2::{Digest, Sha256};
    let th = Sha256::digest(b"ibc-wasm-hook-intermediary");
    let mut h = Sha256::new();
    h.update(th);
    h.update(format!("{channel}/{native}").as_bytes());
    bech32::encode(prefix, h.finalize().to_vec().to_base32(), bech32::Variant::Bech32).unwrap()
}

fn fam_rewards(r: &mut Rng) -> Result<(), String> {
    let s = scenario(r);
    let a = addrs(s.pp, s.np);
    #[allow(non_snake_case, unused_variables)]
    let (ADMIN, USER, USER2, ORACLE, STAKER, COLLECTOR, NATIVE_USER) = (a.admin.as_str(), a.user.as_str(), a.user2.as_str(), a.oracle.as_str(), a.staker.as_str(), a.collector.as_str(), a.native_user.as_str());
    let mut deps = init(&s);
    let amount = r.amount();
    let wrong_sender = r.next() % 5 == 0;
    let sender = if wrong_sender { [hook_p(STAKER, s.pp), USER.to_string(), ADMIN.to_string()][(r.next() % 3) as usize].clone() } else { hook_p(COLLECTOR, s.pp) };
    if !in_dom(s.tn + amount, s.tl) { return Ok(()); }
    let before = dump(&deps.storage);
    let res = execute(deps.as_mut(), mock_env(), mock_info(&sender, &coins(amount, IBC_DENOM)), ExecuteMsg::ReceiveRewards {});
    let ctx = format!("scenario {s:?} reward {amount} sender {sender}");
    let fee = muldiv(s.fee_rate, amount, 100_000);
    let should_ok = !wrong_sender && s.tl != 0 && fee.map_or(false, |f| f <= amount);
    match res {
        Err(e) => {
            if should_ok { return Err(format!("ReceiveRewards refused ({e}); {ctx}")); }
            if dump(&deps.storage) != before { return Err(format!("refused ReceiveRewards changed storage; {ctx}")); }
        }
        Ok(resp) => {
            if wrong_sender { return Err(format!("ReceiveRewards accepted from {sender}, which is not the ibc-hooks account of the reward collector; {ctx}")); }
            if s.tl == 0 { return Err(format!("ReceiveRewards accepted while no LST exists; {ctx}")); }
            if !should_ok { return Err(format!("ReceiveRewards accepted although the fee exceeds the reward; {ctx}")); }
            let mut errs: Vec<String> = vec![];
            let fee = fee.unwrap();
            let st = STATE.load(&deps.storage).unwrap();
            if st.total_native_token.u128() != s.tn + (amount - fee) { errs.push(format!("staked total {} != {}; {ctx}", st.total_native_token, s.tn + amount - fee)); }
            let fees = if s.treasury { s.fees } else { s.fees + fee };
            if st.total_fees.u128() != fees { errs.push(format!("retained fees {} != {fees}; {ctx}", st.total_fees)); }
            if st.total_reward_amount.u128() != s.rewards0 + amount { errs.push(format!("reward counter {} != {}; {ctx}", st.total_reward_amount, s.rewards0 + amount)); }
            let sent = decode(&resp);
            let to_staker: Vec<_> = sent.iter().filter_map(|x| if let Sent::Transfer { amount, receiver, .. } = x { Some((amount.clone(), receiver.clone())) } else { None }).collect();
            if to_staker != vec![((amount - fee).to_string(), STAKER.to_string())] { errs.push(format!("restake transfers {to_staker:?}, expected {} to the staker; {ctx}", amount - fee)); }
            let bank: Vec<_> = sent.iter().filter_map(|x| if let Sent::BankSend { amount, to, .. } = x { Some((*amount, to.clone())) } else { None }).collect();
            let want = if s.treasury { vec![(fee, USER2.to_string())] } else { vec![] };
            if bank != want { errs.push(format!("treasury payments {bank:?}, expected {want:?}; {ctx}")); }
            if let Err(e) = check_oracle(&s, &sent, &deps) { errs.push(format!("{e}; {ctx}")); }
            if let Err(e) = check_state_query(&deps) { errs.push(format!("{e} (after ReceiveRewards); {ctx}")); }
            if !errs.is_empty() { return Err(errs.join(" || ")); }
        }
    }
    Ok(())
}

fn env_at(secs: u64) -> Env {
    let mut e = mock_env();
    e.block.time = Timestamp::from_seconds(secs);
    e
}

fn fam_batch(r: &mut Rng) -> Result<(), String> {
    // unstake (twice by one user, once by another) -> submit -> receive -> withdraw in random order
    let mut s = scenario(r);
    if s.tl < 30 { s.tl = 1_000; s.tn = 1_500; }
    let a = addrs(s.pp, s.np);
    #[allow(non_snake_case, unused_variables)]
    let (ADMIN, USER, USER2, ORACLE, STAKER, COLLECTOR, NATIVE_USER) = (a.admin.as_str(), a.user.as_str(), a.user2.as_str(), a.oracle.as_str(), a.staker.as_str(), a.collector.as_str(), a.native_user.as_str());
    let mut deps = init(&s);
    let lst = CONFIG.load(&deps.storage).unwrap().liquid_stake_token_denom;
    let a1 = (r.next() as u128 % (s.tl / 4).max(1)) + 1;
    let a2 = (r.next() as u128 % (s.tl / 4).max(1)) + 1;
    let a3 = (r.next() as u128 % (s.tl / 4).max(1)) + 1;
    let ctx = format!("scenario {s:?} unstakes {a1},{a2} (user) {a3} (user2)");
    for (who, a) in [(USER, a1), (USER, a2), (USER2, a3)] {
        execute(deps.as_mut(), mock_env(), mock_info(who, &coins(a, &lst)), ExecuteMsg::LiquidUnstake {}).map_err(|e| format!("LiquidUnstake refused: {e}; {ctx}"))?;
    }
    let b = BATCHES.load(&deps.storage, 1).unwrap();
    let total = a1 + a2 + a3;
    if b.batch_total_liquid_stake.u128() != total { return Err(format!("batch total {} != sum of requests {total}; {ctx}", b.batch_total_liquid_stake)); }
    // submit: one second early must fail, at the deadline must succeed
    let due = b.next_batch_action_time.unwrap();
    if execute(deps.as_mut(), env_at(due - 1), mock_info(USER2, &[]), ExecuteMsg::SubmitBatch {}).is_ok() { return Err(format!("SubmitBatch succeeded one second before the batch period elapsed; {ctx}")); }
    let late = r.pick(&[0u64, 1, 86_400, 100_000]);
    let resp = execute(deps.as_mut(), env_at(due + late), mock_info(USER2, &[]), ExecuteMsg::SubmitBatch {}).map_err(|e| format!("SubmitBatch refused at/after the deadline: {e}; {ctx}"))?;
    let mut errs: Vec<String> = vec![];
    let u = muldiv(s.tn, total, s.tl).unwrap();
    let st = STATE.load(&deps.storage).unwrap();
    if st.total_native_token.u128() != s.tn - u || st.total_liquid_stake_token.u128() != s.tl - total { errs.push(format!("totals after submit {} / {} expected {} / {}; {ctx}", st.total_native_token, st.total_liquid_stake_token, s.tn - u, s.tl - total)); }
    let sent = decode(&resp);
    let burns: Vec<_> = sent.iter().filter_map(|x| if let Sent::Burn { amount, .. } = x { Some(amount.clone()) } else { None }).collect();
    let notes: Vec<&String> = sent.iter().filter_map(|x| if let Sent::Other(t) = x { if t.starts_with("token-factory") { Some(t) } else { None } } else { None }).collect();
    if burns != vec![total.to_string()] { errs.push(format!("burn messages {burns:?} (module {TF}), expected {total} {notes:?}; {ctx}")); }
    if let Err(e) = check_oracle(&s, &sent, &deps) { errs.push(format!("{e} (SubmitBatch); {ctx}")); }
    let b1 = BATCHES.load(&deps.storage, 1).unwrap();
    if b1.expected_native_unstaked != Some(Uint128::new(u)) { errs.push(format!("expected amount {:?} != {u}; {ctx}", b1.expected_native_unstaked)); }
    let p = PENDING_BATCH_ID.load(&deps.storage).unwrap();
    let nb = BATCHES.load(&deps.storage, p).unwrap();
    if p != 2 || nb.next_batch_action_time != Some(due + late + 86_400) { errs.push(format!("new pending batch {p} due {:?}, expected id 2 due {}; {ctx}", nb.next_batch_action_time, due + late + 86_400)); }
    if !errs.is_empty() { return Err(errs.join(" || ")); }
    check_state_query(&deps).map_err(|e| format!("{e} (after SubmitBatch); {ctx}"))?;
    let unb = due + late + 1_209_600;
    if b1.next_batch_action_time != Some(unb) { return Err(format!("submitted batch becomes receivable at {:?}, expected one unbonding period after submission ({unb}); {ctx}", b1.next_batch_action_time)); }
    match catch_unwind(AssertUnwindSafe(|| execute(deps.as_mut(), env_at(unb + 5), mock_info(USER, &[]), ExecuteMsg::Withdraw { batch_id: 1 }))) {
        Ok(Ok(_)) => return Err(format!("Withdraw from a batch that has not received its tokens succeeded; {ctx}")),
        Ok(Err(_)) => {}
        Err(_) => return Err(format!("the real code PANICKED in Withdraw from a batch that has not received its tokens; {ctx}")),
    }
    // a second round: the batch opened by SubmitBatch is due exactly one batch period later
    let a4 = (r.next() as u128 % (s.tl / 4).max(1)) + 1;
    let (tn1, tl1) = (s.tn - u, s.tl - total);
    if r.next() % 2 == 0 && in_dom(tn1 - muldiv(tn1, a4, tl1).unwrap(), tl1 - a4) {
        execute(deps.as_mut(), env_at(due + late + 10), mock_info(USER, &coins(a4, &lst)), ExecuteMsg::LiquidUnstake {}).map_err(|e| format!("LiquidUnstake refused: {e}; {ctx}"))?;
        {
            // the repeat unstake opens a request in the NEW pending batch; the request in the submitted batch is untouched
            let r2 = staking::state::unstake_requests().may_load(&deps.storage, (2, USER.to_string())).unwrap().map(|x| x.amount.u128());
            let r1 = staking::state::unstake_requests().may_load(&deps.storage, (1, USER.to_string())).unwrap().map(|x| x.amount.u128());
            let b2 = BATCHES.load(&deps.storage, 2).unwrap().batch_total_liquid_stake.u128();
            if r2 != Some(a4) || r1 != Some(a1 + a2) || b2 != a4 {
                return Err(format!("batch total {b2} of the pending batch != sum of its requests: after unstaking {a4} into batch 2 the user's requests are batch 1: {r1:?} (expected {}), batch 2: {r2:?} (expected {a4}); {ctx}", a1 + a2));
            }
        }
        let due2 = due + late + 86_400;
        if execute(deps.as_mut(), env_at(due2 - 1), mock_info(USER2, &[]), ExecuteMsg::SubmitBatch {}).is_ok() { return Err(format!("SubmitBatch succeeded one second before the batch period elapsed (second batch, unstake {a4}); {ctx}")); }
        let resp = execute(deps.as_mut(), env_at(due2), mock_info(USER2, &[]), ExecuteMsg::SubmitBatch {}).map_err(|e| format!("SubmitBatch refused at/after the deadline of the second batch ({due2}): {e}; {ctx}"))?;
        check_oracle(&s, &decode(&resp), &deps).map_err(|e| format!("{e} (second SubmitBatch); {ctx}"))?;
        let p = PENDING_BATCH_ID.load(&deps.storage).unwrap();
        let nb = BATCHES.load(&deps.storage, p).unwrap();
        if p != 3 || nb.next_batch_action_time != Some(due2 + 86_400) || nb.batch_total_liquid_stake.u128() != 0 { return Err(format!("second pending batch {p} due {:?} total {}, expected id 3 due {} total 0; {ctx}", nb.next_batch_action_time, nb.batch_total_liquid_stake, due2 + 86_400)); }
    }
    // receive: slashed / exact / generous
    let recv = match r.next() % 3 { 0 => u, 1 => u - u / 10, _ => u + 7 };
    if recv == 0 { return Ok(()); }
    if r.next() % 2 == 0 {
        // the reward collector's hook account delivers rewards first (outcome irrelevant here): it must still not pass as the staker below
        let _ = execute(deps.as_mut(), env_at(unb - 2), mock_info(&hook_p(COLLECTOR, s.pp), &coins(1000, IBC_DENOM)), ExecuteMsg::ReceiveRewards {});
    }
    if execute(deps.as_mut(), env_at(unb - 1), mock_info(&hook_p(STAKER, s.pp), &coins(recv, IBC_DENOM)), ExecuteMsg::ReceiveUnstakedTokens { batch_id: 1 }).is_ok() { return Err(format!("ReceiveUnstakedTokens accepted before the unbonding period elapsed; {ctx}")); }
    if execute(deps.as_mut(), env_at(unb), mock_info(&hook_p(COLLECTOR, s.pp), &coins(recv, IBC_DENOM)), ExecuteMsg::ReceiveUnstakedTokens { batch_id: 1 }).is_ok() { return Err(format!("ReceiveUnstakedTokens accepted from the reward collector's hook account; {ctx}")); }
    execute(deps.as_mut(), env_at(unb), mock_info(&hook_p(STAKER, s.pp), &coins(recv, IBC_DENOM)), ExecuteMsg::ReceiveUnstakedTokens { batch_id: 1 }).map_err(|e| format!("ReceiveUnstakedTokens refused: {e}; {ctx}"))?;
    let b2 = BATCHES.load(&deps.storage, 1).unwrap();
    if b2.expected_native_unstaked != Some(Uint128::new(u)) { return Err(format!("expected amount changed to {:?} on receipt; {ctx}", b2.expected_native_unstaked)); }
    // withdraw in random order; each pays floor(recv*own/total), second attempt fails, stranger gets nothing
    let mut paid = 0u128;
    let order = if r.next() % 2 == 0 { [(USER, a1 + a2), (USER2, a3)] } else { [(USER2, a3), (USER, a1 + a2)] };
    for (who, own) in order {
        let resp = execute(deps.as_mut(), env_at(unb + 5), mock_info(who, &[]), ExecuteMsg::Withdraw { batch_id: 1 }).map_err(|e| format!("Withdraw refused: {e}; {ctx}"))?;
        let want = muldiv(recv, own, total).unwrap();
        let sends: Vec<_> = decode(&resp).iter().filter_map(|x| if let Sent::Send { amount, to, .. } = x { Some((amount.clone(), to.clone())) } else { None }).collect();
        if sends != vec![(want.to_string(), who.to_string())] { return Err(format!("Withdraw of {who} paid {sends:?}, expected {want} (received {recv}, own {own}, total {total}); {ctx}")); }
        paid += want;
        if execute(deps.as_mut(), env_at(unb + 6), mock_info(who, &[]), ExecuteMsg::Withdraw { batch_id: 1 }).is_ok() { return Err(format!("second Withdraw of {who} succeeded; {ctx}")); }
    }
    if paid > recv { return Err(format!("payouts {paid} exceed what was received {recv}; {ctx}")); }
    if execute(deps.as_mut(), env_at(unb + 7), mock_info(ADMIN, &[]), ExecuteMsg::Withdraw { batch_id: 1 }).is_ok() { return Err(format!("Withdraw by an account without a request succeeded; {ctx}")); }
    Ok(())
}

fn fam_auth(r: &mut Rng) -> Result<(), String> {
    let s = scenario(r);
    let a = addrs(s.pp, s.np);
    #[allow(non_snake_case, unused_variables)]
    let (ADMIN, USER, USER2, ORACLE, STAKER, COLLECTOR, NATIVE_USER) = (a.admin.as_str(), a.user.as_str(), a.user2.as_str(), a.oracle.as_str(), a.staker.as_str(), a.collector.as_str(), a.native_user.as_str());
    let mut deps = init(&s);
    let who = r.pick(&[USER, USER2, ORACLE]);
    let msgs: Vec<(&str, ExecuteMsg)> = vec![
        ("AddValidator", ExecuteMsg::AddValidator { new_validator: b32(&format!("{}valoper", s.np), 9) }),
        ("RemoveValidator", ExecuteMsg::RemoveValidator { validator: a.val.clone() }),
        ("TransferOwnership", ExecuteMsg::TransferOwnership { new_owner: USER.into() }),
        ("RevokeOwnershipTransfer", ExecuteMsg::RevokeOwnershipTransfer {}),
        ("UpdateConfig", ExecuteMsg::UpdateConfig { native_chain_config: None, protocol_chain_config: None, protocol_fee_config: None, monitors: Some(vec![]), batch_period: Some(1) }),
        ("ResumeContract", ExecuteMsg::ResumeContract { total_native_token: Uint128::new(1), total_liquid_stake_token: Uint128::new(1), total_reward_amount: Uint128::zero() }),
        ("FeeWithdraw", ExecuteMsg::FeeWithdraw { amount: Uint128::new(1) }),
        ("RecoverPendingIbcTransfers(forced)", ExecuteMsg::RecoverPendingIbcTransfers { paginated: None, selected_packets: Some(vec![1]), receiver: None }),
        ("AcceptOwnership", ExecuteMsg::AcceptOwnership {}),
    ];
    for (name, m) in msgs {
        if who == USER2 && name == "CircuitBreaker" { continue; }
        let before = dump(&deps.storage);
        let res = execute(deps.as_mut(), mock_env(), mock_info(who, &[]), m);
        if res.is_ok() { return Err(format!("{name} succeeded for non-admin {who}; scenario {s:?}")); }
        if dump(&deps.storage) != before { return Err(format!("refused {name} from {who} changed storage; scenario {s:?}")); }
    }
    // circuit breaker: user cannot, monitor can, and only the flag changes
    if execute(deps.as_mut(), mock_env(), mock_info(USER, &[]), ExecuteMsg::CircuitBreaker {}).is_ok() { return Err("CircuitBreaker succeeded for an ordinary user".into()); }
    let c0 = CONFIG.load(&deps.storage).unwrap();
    let st0 = STATE.load(&deps.storage).unwrap();
    execute(deps.as_mut(), mock_env(), mock_info(USER2, &[]), ExecuteMsg::CircuitBreaker {}).map_err(|e| format!("CircuitBreaker refused for a monitor: {e}"))?;
    let c1 = CONFIG.load(&deps.storage).unwrap();
    if !c1.stopped || (Config { stopped: c0.stopped, ..c1.clone() }) != c0 || STATE.load(&deps.storage).unwrap() != st0 { return Err("CircuitBreaker changed more than the halted flag".into()); }
    // halted: value-moving operations fail without effect
    let lst = c1.liquid_stake_token_denom.clone();
    let halted: Vec<(&str, String, Vec<Coin>, ExecuteMsg)> = vec![
        ("LiquidStake", USER.into(), coins(1000, IBC_DENOM), ExecuteMsg::LiquidStake { mint_to: None, transfer_to_native_chain: None, expected_mint_amount: None }),
        ("LiquidUnstake", USER.into(), coins(10, &lst), ExecuteMsg::LiquidUnstake {}),
        ("SubmitBatch", USER.into(), vec![], ExecuteMsg::SubmitBatch {}),
        ("Withdraw", USER.into(), vec![], ExecuteMsg::Withdraw { batch_id: 1 }),
        ("ReceiveRewards", hook_p(COLLECTOR, s.pp), coins(1000, IBC_DENOM), ExecuteMsg::ReceiveRewards {}),
        ("ReceiveUnstakedTokens", hook_p(STAKER, s.pp), coins(1000, IBC_DENOM), ExecuteMsg::ReceiveUnstakedTokens { batch_id: 1 }),
    ];
    for (name, who, funds, m) in halted {
        let before = dump(&deps.storage);
        let res = execute(deps.as_mut(), env_at(2_000_000_000), mock_info(&who, &funds), m);
        match res {
            Ok(_) => return Err(format!("{name} succeeded while the contract is halted; scenario {s:?}")),
            Err(_) => {}
        }
        if dump(&deps.storage) != before { return Err(format!("{name} while halted changed storage")); }
    }
    // resume: monitor cannot, admin sets exactly the totals
    let (a, mut b, c) = (Uint128::new(r.amount()), Uint128::new(r.amount()), Uint128::new(r.amount()));
    if r.next() % 4 == 0 { b = Uint128::zero(); }   // resuming with no LST outstanding (e.g. after a complete exit)
    let rm = ExecuteMsg::ResumeContract { total_native_token: a, total_liquid_stake_token: b, total_reward_amount: c };
    if execute(deps.as_mut(), mock_env(), mock_info(USER2, &[]), rm.clone()).is_ok() { return Err("ResumeContract succeeded for a monitor".into()); }
    if b.is_zero() || (a.u128() <= 1000 * b.u128() && b.u128() <= 1000 * a.u128()) {
        let resp = execute(deps.as_mut(), mock_env(), mock_info(ADMIN, &[]), rm).map_err(|e| format!("ResumeContract refused for the admin: {e}"))?;
        check_oracle(&s, &decode(&resp), &deps).map_err(|e| format!("{e} (ResumeContract to {a}/{b}); scenario {s:?}"))?;
        check_state_query(&deps).map_err(|e| format!("{e} (after ResumeContract); scenario {s:?}"))?;
        let st1 = STATE.load(&deps.storage).unwrap();
        if st1 != (State { total_native_token: a, total_liquid_stake_token: b, total_reward_amount: c, ..st0.clone() }) { return Err(format!("ResumeContract did not set exactly the supplied totals: {st1:?}")); }
    }
    Ok(())
}

fn fam_ownership(r: &mut Rng) -> Result<(), String> {
    let s = scenario(r);
    let a = addrs(s.pp, s.np);
    #[allow(non_snake_case, unused_variables)]
    let (ADMIN, USER, USER2, ORACLE, STAKER, COLLECTOR, NATIVE_USER) = (a.admin.as_str(), a.user.as_str(), a.user2.as_str(), a.oracle.as_str(), a.staker.as_str(), a.collector.as_str(), a.native_user.as_str());
    let mut deps = init(&s);
    let t0 = 1_700_000_000u64 + r.next() % 1000;
    execute(deps.as_mut(), env_at(t0), mock_info(ADMIN, &[]), ExecuteMsg::TransferOwnership { new_owner: USER.into() }).map_err(|e| format!("nomination refused: {e}"))?;
    let renom = r.next() % 2 == 0;
    let t1 = if renom { t0 + 604_799 } else { t0 };
    if renom {
        execute(deps.as_mut(), env_at(t1), mock_info(ADMIN, &[]), ExecuteMsg::TransferOwnership { new_owner: USER.into() }).map_err(|e| format!("re-nomination refused: {e}"))?;
    }
    if execute(deps.as_mut(), env_at(t1 + 604_799), mock_info(USER, &[]), ExecuteMsg::AcceptOwnership {}).is_ok() { return Err(format!("AcceptOwnership succeeded at 7 days minus one second after the most recent nomination (renominated: {renom})")); }
    if execute(deps.as_mut(), env_at(t1 + 604_800), mock_info(USER2, &[]), ExecuteMsg::AcceptOwnership {}).is_ok() { return Err("AcceptOwnership succeeded for an account that was not nominated".into()); }
    if r.next() % 3 == 0 {
        if execute(deps.as_mut(), env_at(t1 + 10), mock_info(USER, &[]), ExecuteMsg::RevokeOwnershipTransfer {}).is_ok() { return Err("RevokeOwnershipTransfer succeeded for non-admin (the nominee)".into()); }
        execute(deps.as_mut(), env_at(t1 + 10), mock_info(ADMIN, &[]), ExecuteMsg::RevokeOwnershipTransfer {}).map_err(|e| format!("revocation of the nomination refused: {e}"))?;
        if execute(deps.as_mut(), env_at(t1 + 700_000), mock_info(USER, &[]), ExecuteMsg::AcceptOwnership {}).is_ok() { return Err("AcceptOwnership succeeded after the nomination was revoked".into()); }
        return Ok(());
    }
    execute(deps.as_mut(), env_at(t1 + 604_800), mock_info(USER, &[]), ExecuteMsg::AcceptOwnership {}).map_err(|e| format!("AcceptOwnership refused exactly 7 days after nomination: {e}"))?;
    if execute(deps.as_mut(), env_at(t1 + 604_801), mock_info(ADMIN, &[]), ExecuteMsg::CircuitBreaker {}).is_ok() { return Err("former admin still has admin rights after the handover".into()); }
    if execute(deps.as_mut(), env_at(t1 + 604_802), mock_info(USER, &[]), ExecuteMsg::AcceptOwnership {}).is_ok() { return Err("acceptance did not consume the nomination".into()); }
    // second handover is time-locked too
    execute(deps.as_mut(), env_at(t1 + 700_000), mock_info(USER, &[]), ExecuteMsg::TransferOwnership { new_owner: USER2.into() }).map_err(|e| format!("second nomination refused: {e}"))?;
    if execute(deps.as_mut(), env_at(t1 + 700_001), mock_info(USER2, &[]), ExecuteMsg::AcceptOwnership {}).is_ok() { return Err("second handover was accepted without waiting 7 days".into()); }
    Ok(())
}

fn fam_fee_withdraw(r: &mut Rng) -> Result<(), String> {
    let s = scenario(r);
    let a = addrs(s.pp, s.np);
    #[allow(non_snake_case, unused_variables)]
    let (ADMIN, USER, USER2, ORACLE, STAKER, COLLECTOR, NATIVE_USER) = (a.admin.as_str(), a.user.as_str(), a.user2.as_str(), a.oracle.as_str(), a.staker.as_str(), a.collector.as_str(), a.native_user.as_str());
    let mut deps = init(&s);
    let amount = r.pick(&[0u128, 1, 100, 12_345, 12_346, 10u128.pow(20)]);
    let res = execute(deps.as_mut(), mock_env(), mock_info(ADMIN, &[]), ExecuteMsg::FeeWithdraw { amount: Uint128::new(amount) });
    let should_ok = amount <= s.fees && s.treasury;
    match res {
        Err(e) => if should_ok { return Err(format!("FeeWithdraw of {amount} refused ({e}) with fees {} and a treasury", s.fees)); },
        Ok(resp) => {
            if !should_ok { return Err(format!("FeeWithdraw of {amount} accepted with fees {} treasury {}", s.fees, s.treasury)); }
            let sends: Vec<_> = decode(&resp).iter().filter_map(|x| if let Sent::Send { amount, to, .. } = x { Some((amount.clone(), to.clone())) } else { None }).collect();
            if sends != vec![(amount.to_string(), USER2.to_string())] { return Err(format!("FeeWithdraw sent {sends:?}, expected {amount} to the treasury")); }
            if STATE.load(&deps.storage).unwrap().total_fees.u128() != s.fees - amount { return Err("FeeWithdraw did not reduce the fee balance by the amount".into()); }
            let again = s.fees - amount + 1;
            if execute(deps.as_mut(), mock_env(), mock_info(ADMIN, &[]), ExecuteMsg::FeeWithdraw { amount: Uint128::new(again) }).is_ok() { return Err(format!("a second FeeWithdraw of {again} was accepted after {amount} of the {} accrued fees had already been withdrawn", s.fees)); }
        }
    }
    Ok(())
}

fn fam_validation(r: &mut Rng) -> Result<(), String> {
    let bad_channels = ["channel", "channel123", "channels-1", "channel-+5", "channel-", "channel-channel-7", "channel-1x", "Channel-1", "channel-1/2", " channel-3"];
    let ch = r.pick(&bad_channels);
    let c = UnsafeProtocolChainConfig { account_address_prefix: "osmo".into(), ibc_token_denom: IBC_DENOM.into(), ibc_channel_id: ch.into(), minimum_liquid_stake_amount: Uint128::one(), oracle_address: None };
    if c.validate().is_ok() { return Err(format!("channel id {ch:?} was accepted by validation")); }
    let denoms = ["ibc/", "ibc/C3E5", &format!("ibc\u{e9}{}", "A".repeat(63)), &format!("IBC/{}", "A".repeat(64))];
    let d = r.pick(&denoms).to_string();
    let c = UnsafeProtocolChainConfig { account_address_prefix: "osmo".into(), ibc_token_denom: d.clone(), ibc_channel_id: "channel-1".into(), minimum_liquid_stake_amount: Uint128::one(), oracle_address: None };
    if c.validate().is_ok() { return Err(format!("staked-asset denom {d:?} was accepted by validation")); }
    let c = UnsafeProtocolChainConfig { account_address_prefix: "OSMO".into(), ibc_token_denom: IBC_DENOM.into(), ibc_channel_id: "channel-1".into(), minimum_liquid_stake_amount: Uint128::one(), oracle_address: None };
    if let Ok(v) = c.validate() { if v.account_address_prefix != "osmo" { return Err(format!("upper-case prefix stored as {:?} instead of lower case", v.account_address_prefix)); } }
    Ok(())
}

fn fam_recover(r: &mut Rng) -> Result<(), String> {
    use staking::state::ibc::{IBCTransfer, PacketLifecycleStatus as PS};
    use staking::state::{IBC_WAITING_FOR_REPLY, INFLIGHT_PACKETS};
    let s = scenario(r);
    let a = addrs(s.pp, s.np);
    #[allow(non_snake_case, unused_variables)]
    let (ADMIN, USER, USER2, ORACLE, STAKER, COLLECTOR, NATIVE_USER) = (a.admin.as_str(), a.user.as_str(), a.user2.as_str(), a.oracle.as_str(), a.staker.as_str(), a.collector.as_str(), a.native_user.as_str());
    let mut deps = init(&s);
    let lst = CONFIG.load(&deps.storage).unwrap().liquid_stake_token_denom;
    // sometimes many packets towards one receiver, so that a paginated recovery has more than one page
    let many = r.next() % 5 == 0;
    let n = if many { 11 + r.next() % 16 } else { 1 + r.next() % 14 };
    let mixed = r.next() % 4 == 0;
    let mut all: Vec<IBCTransfer> = vec![];
    for i in 0..n {
        let id = 10 + i * (1 + r.next() % 3) + i;
        if all.iter().any(|p| p.sequence == id) { continue; }
        let p = IBCTransfer {
            sequence: id,
            amount: Coin::new(r.amount().min(10u128.pow(20)), if mixed && r.next() % 3 == 0 { lst.clone() } else { IBC_DENOM.to_string() }),
            receiver: if many && r.next() % 8 != 0 { STAKER.to_string() } else { r.pick(&[STAKER, NATIVE_USER]).to_string() },
            status: if many && r.next() % 8 != 0 { PS::TimedOut } else { [PS::Sent, PS::AckFailure, PS::TimedOut, PS::AckFailure][(r.next() % 4) as usize].clone() },
        };
        INFLIGHT_PACKETS.save(&mut deps.storage, id, &p).unwrap();
        all.push(p);
    }
    all.sort_by_key(|p| p.sequence);
    let rcv_opt = r.pick(&[None, Some(STAKER), Some(NATIVE_USER)]);
    let rcv = rcv_opt.unwrap_or(STAKER);
    let forced = r.next() % 3 == 0;
    let page = r.next() % 2 == 0;
    let refundable = |p: &IBCTransfer| p.status == PS::AckFailure || p.status == PS::TimedOut;
    let (sel_ids, expect): (Option<Vec<u64>>, Result<Vec<IBCTransfer>, &str>) = if forced {
        let k = 1 + r.next() % 3;
        let mut ids = vec![];
        for _ in 0..k {
            ids.push(match r.next() % 8 { 0 => 9_999, _ => all[(r.next() % all.len() as u64) as usize].sequence });
        }
        let mut e: Result<Vec<IBCTransfer>, &str> = Ok(vec![]);
        let mut seen = vec![];
        for id in &ids {
            match all.iter().find(|p| p.sequence == *id) {
                None => { e = Err("an id that is not recorded"); break; }
                Some(p) if p.receiver != rcv => { e = Err("a packet of another receiver"); break; }
                Some(_) if seen.contains(id) => { e = Err("a repeated id"); break; }
                Some(p) => { seen.push(*id); if let Ok(v) = e.as_mut() { v.push(p.clone()); } }
            }
        }
        (Some(ids), e)
    } else {
        let mut v: Vec<IBCTransfer> = all.iter().filter(|p| p.receiver == rcv && refundable(p)).cloned().collect();
        if page { v.truncate(10); }
        (None, Ok(v))
    };
    let expect = match expect {
        Ok(v) if v.is_empty() => Err("nothing to recover"),
        Ok(v) if v.iter().any(|p| p.amount.denom != v[0].amount.denom) => Err("packets of different denoms"),
        x => x,
    };
    let ctx = format!("packets {:?}; receiver {rcv_opt:?} forced ids {sel_ids:?} paginated {page}", all.iter().map(|p| (p.sequence, p.amount.amount.u128(), &p.amount.denom[..4], &p.receiver[9..13], format!("{:?}", p.status))).collect::<Vec<_>>());
    let before = dump(&deps.storage);
    let sender = if forced { ADMIN } else { USER };
    if forced {
        let before = dump(&deps.storage);
        let res = execute(deps.as_mut(), mock_env(), mock_info(USER, &[]), ExecuteMsg::RecoverPendingIbcTransfers { paginated: Some(page), selected_packets: sel_ids.clone(), receiver: rcv_opt.map(|x| x.to_string()) });
        if res.is_ok() { return Err(format!("forced recovery by a non-admin was accepted; {ctx}")); }
        if dump(&deps.storage) != before { return Err(format!("refused forced recovery changed storage; {ctx}")); }
    }
    let res = execute(deps.as_mut(), mock_env(), mock_info(sender, &[]), ExecuteMsg::RecoverPendingIbcTransfers { paginated: Some(page), selected_packets: sel_ids.clone(), receiver: rcv_opt.map(|x| x.to_string()) });
    match (res, expect) {
        (Err(_), Err(_)) => { if dump(&deps.storage) != before { return Err(format!("refused recovery changed storage; {ctx}")); } }
        (Ok(_), Err(why)) => return Err(format!("recovery accepted although it selects {why}; {ctx}")),
        (Err(e), Ok(_)) => return Err(format!("recovery refused ({e}); {ctx}")),
        (Ok(resp), Ok(sel)) => {
            let sum: u128 = sel.iter().map(|p| p.amount.amount.u128()).sum();
            let sent = decode(&resp);
            let tr: Vec<_> = sent.iter().filter_map(|x| if let Sent::Transfer { amount, denom, receiver, sub_id } = x { Some((amount.clone(), denom.clone(), receiver.clone(), *sub_id)) } else { None }).collect();
            let maxid = all.last().unwrap().sequence;
            let want = vec![(sum.to_string(), sel[0].amount.denom.clone(), rcv.to_string(), maxid + 1)];
            if tr != want { return Err(format!("recovery sent {sent:?}, expected one transfer {want:?}; {ctx}")); }
            for p in &all {
                let still = INFLIGHT_PACKETS.may_load(&deps.storage, p.sequence).unwrap();
                let selected = sel.iter().any(|q| q.sequence == p.sequence);
                if selected && still.is_some() { return Err(format!("recovered packet {} is still recorded; {ctx}", p.sequence)); }
                if !selected && still.as_ref() != Some(p) { return Err(format!("packet {} that was not selected was removed or changed; {ctx}", p.sequence)); }
            }
            let w = IBC_WAITING_FOR_REPLY.may_load(&deps.storage, maxid + 1).unwrap();
            match w {
                Some(w) if w.amount.amount.u128() == sum && w.receiver == rcv && w.amount.denom == sel[0].amount.denom => {}
                other => return Err(format!("re-sent transfer is not tracked for a reply as {sum} to {rcv}: {other:?}; {ctx}")),
            }
        }
    }
    Ok(())
}

mod tre {
    pub use treasury::contract::{execute, instantiate};
    pub use treasury::msg::{ExecuteMsg, InstantiateMsg};
    pub use treasury::state::{SwapRoute, CONFIG};
}

fn tre_init(r: &mut Rng) -> (Deps, Vec<Vec<tre::SwapRoute>>) {
    let a = addrs("osmo", "celestia");
    #[allow(non_snake_case, unused_variables)]
    let (ADMIN, USER, USER2, ORACLE, STAKER, COLLECTOR, NATIVE_USER) = (a.admin.as_str(), a.user.as_str(), a.user2.as_str(), a.oracle.as_str(), a.staker.as_str(), a.collector.as_str(), a.native_user.as_str());
    let mut deps = mock_dependencies();
    let rt = |p: u64, a: &str, b: &str| tre::SwapRoute { pool_id: p, token_in_denom: a.into(), token_out_denom: b.into() };
    let mut routes = vec![vec![rt(1, "utia", "uosmo")], vec![rt(2, "uosmo", "uusdc"), rt(3, "uusdc", "utia")]];
    if r.next() % 2 == 0 { routes.push(vec![rt(1, "utia", "uosmo"), rt(4, "uosmo", "uatom")]); }
    if r.next() % 5 == 0 { routes.clear(); }
    if r.next() % 4 == 0 { routes.push(vec![]); }
    tre::instantiate(deps.as_mut(), mock_env(), mock_info(ADMIN, &[]), tre::InstantiateMsg { admin: None, trader: Some(USER.into()), allowed_swap_routes: routes.clone() }).expect("treasury instantiate");
    (deps, routes)
}

fn fam_treasury(r: &mut Rng) -> Result<(), String> {
    let a = addrs("osmo", "celestia");
    #[allow(non_snake_case, unused_variables)]
    let (ADMIN, USER, USER2, ORACLE, STAKER, COLLECTOR, NATIVE_USER) = (a.admin.as_str(), a.user.as_str(), a.user2.as_str(), a.oracle.as_str(), a.staker.as_str(), a.collector.as_str(), a.native_user.as_str());
    let (mut deps, routes) = tre_init(r);
    let rt = |p: u64, a: &str, b: &str| tre::SwapRoute { pool_id: p, token_in_denom: a.into(), token_out_denom: b.into() };
    // candidate routes: allowed ones, prefixes, permutations, near misses
    let mut cands: Vec<Vec<tre::SwapRoute>> = routes.clone();
    cands.push(vec![]);
    cands.push(vec![rt(2, "uosmo", "uusdc")]);
    cands.push(vec![rt(3, "uusdc", "utia"), rt(2, "uosmo", "uusdc")]);
    cands.push(vec![rt(9, "utia", "uosmo")]);
    cands.push(vec![rt(1, "utia", "uatom")]);
    cands.push(vec![rt(1, "utia", "uosmo"), rt(1, "utia", "uosmo")]);
    // allow-listed routes with the letter case of the denoms changed: different denoms
    for a in &routes {
        if !a.is_empty() {
            cands.push(a.iter().map(|h| rt(h.pool_id, &h.token_in_denom.to_uppercase(), &h.token_out_denom)).collect());
            cands.push(a.iter().map(|h| rt(h.pool_id, &h.token_in_denom, &h.token_out_denom.to_uppercase())).collect());
        }
    }
    let route = cands[(r.next() % cands.len() as u64) as usize].clone();
    let who = r.pick(&[USER, USER, ADMIN, USER2]);
    let denom = if r.next() % 4 == 0 && !route.is_empty() { if r.next() % 2 == 0 { route[0].token_in_denom.clone() } else { route.last().unwrap().token_out_denom.clone() } } else { r.pick(&["utia", "uosmo", "uusdc", "uatom"]).to_string() };
    let denom = denom.as_str();
    let amt = r.amount();
    let lim = r.amount();
    // identical = same hops in the same order, compared field by field (not through the crate's own `==`)
    let same = |x: &Vec<tre::SwapRoute>, y: &Vec<tre::SwapRoute>| x.len() == y.len() && x.iter().zip(y.iter()).all(|(p, q)| p.pool_id == q.pool_id && p.token_in_denom == q.token_in_denom && p.token_out_denom == q.token_out_denom);
    let allowed = !route.is_empty() && routes.iter().any(|a| same(a, &route));
    let swap_in = r.next() % 2 == 0;
    let ctx = format!("sender {who} route {route:?} denom {denom} amount {amt} limit {lim}");
    let before = dump(&deps.storage);
    if swap_in {
        let res = tre::execute(deps.as_mut(), mock_env(), mock_info(who, &[]), tre::ExecuteMsg::SwapExactAmountIn { routes: route.clone(), token_in: Coin::new(amt, denom), token_out_min_amount: lim });
        let should = who == USER && allowed && route[0].token_in_denom == denom;
        match res {
            Ok(resp) => {
                if !should { return Err(format!("SwapExactAmountIn accepted (trader only, allow-listed route, matching input denom); {ctx}")); }
                use osmosis_std::types::osmosis::poolmanager::v1beta1::MsgSwapExactAmountIn;
                if resp.messages.len() != 1 { return Err(format!("swap emitted {} messages; {ctx}", resp.messages.len())); }
                let CosmosMsg::Stargate { type_url, value } = &resp.messages[0].msg else { return Err(format!("swap emitted a non-stargate message; {ctx}")) };
                if type_url != "/osmosis.poolmanager.v1beta1.MsgSwapExactAmountIn" { return Err(format!("swap message type {type_url}; {ctx}")); }
                let m = MsgSwapExactAmountIn::decode(value.as_slice()).unwrap();
                let c = m.token_in.unwrap();
                let rs: Vec<_> = m.routes.iter().map(|x| (x.pool_id, x.token_out_denom.clone())).collect();
                let want: Vec<_> = route.iter().map(|x| (x.pool_id, x.token_out_denom.clone())).collect();
                if m.sender != mock_env().contract.address.as_str() || c.amount != amt.to_string() || c.denom != denom || m.token_out_min_amount != lim.to_string() || rs != want {
                    return Err(format!("swap message does not carry the request: sender {} token_in {}{} min {} routes {rs:?}; {ctx}", m.sender, c.amount, c.denom, m.token_out_min_amount));
                }
            }
            Err(_) => { if should { return Err(format!("SwapExactAmountIn refused for the trader on an allow-listed route; {ctx}")); } }
        }
    } else {
        let res = tre::execute(deps.as_mut(), mock_env(), mock_info(who, &[]), tre::ExecuteMsg::SwapExactAmountOut { routes: route.clone(), token_out: Coin::new(amt, denom), token_in_max_amount: lim });
        let should = who == USER && allowed && route.last().unwrap().token_out_denom == denom;
        match res {
            Ok(resp) => {
                if !should { return Err(format!("SwapExactAmountOut accepted (trader only, allow-listed route, matching output denom); {ctx}")); }
                use osmosis_std::types::osmosis::poolmanager::v1beta1::MsgSwapExactAmountOut;
                let CosmosMsg::Stargate { type_url, value } = &resp.messages[0].msg else { return Err(format!("swap emitted a non-stargate message; {ctx}")) };
                if type_url != "/osmosis.poolmanager.v1beta1.MsgSwapExactAmountOut" || resp.messages.len() != 1 { return Err(format!("swap message type {type_url}; {ctx}")); }
                let m = MsgSwapExactAmountOut::decode(value.as_slice()).unwrap();
                let c = m.token_out.unwrap();
                let rs: Vec<_> = m.routes.iter().map(|x| (x.pool_id, x.token_in_denom.clone())).collect();
                let want: Vec<_> = route.iter().map(|x| (x.pool_id, x.token_in_denom.clone())).collect();
                if m.sender != mock_env().contract.address.as_str() || c.amount != amt.to_string() || c.denom != denom || m.token_in_max_amount != lim.to_string() || rs != want {
                    return Err(format!("swap message does not carry the request: token_out {}{} max {} routes {rs:?}; {ctx}", c.amount, c.denom, m.token_in_max_amount));
                }
            }
            Err(_) => { if should { return Err(format!("SwapExactAmountOut refused for the trader on an allow-listed route; {ctx}")); } }
        }
    }
    if dump(&deps.storage) != before { return Err(format!("a swap changed storage; {ctx}")); }
    // spending and configuration: admin only
    let (ext_local, ext_native) = (b32("osmovaloper", 9), b32("celestiavaloper", 9));
    let recv = r.pick(&[USER2, NATIVE_USER, "osmo1invalid", "cosmos1xyz", ext_local.as_str(), ext_native.as_str()]);
    let chan = r.pick(&[None, Some("channel-7")]);
    let res = tre::execute(deps.as_mut(), mock_env(), mock_info(who, &[]), tre::ExecuteMsg::SpendFunds { amount: Coin::new(amt, denom), receiver: recv.into(), channel_id: chan.map(|x| x.to_string()) });
    let valid = if chan.is_none() { recv == USER2 } else { recv == NATIVE_USER };
    match res {
        Ok(resp) => {
            if who != ADMIN { return Err(format!("SpendFunds accepted from {who}, who is not the admin; {ctx}")); }
            if !valid { return Err(format!("SpendFunds accepted receiver {recv} for channel {chan:?}; {ctx}")); }
            let sent = decode(&resp);
            let ok = match (&sent[..], chan) {
                ([Sent::BankSend { amount, denom: d, to }], None) => *amount == amt && d == denom && to == recv,
                ([Sent::Transfer { amount, denom: d, receiver, .. }], Some(_)) => *amount == amt.to_string() && d == denom && receiver == recv,
                _ => false,
            };
            if !ok { return Err(format!("SpendFunds sent {sent:?}, expected {amt}{denom} to {recv}; {ctx}")); }
        }
        Err(_) => { if who == ADMIN && valid { return Err(format!("SpendFunds refused for the admin with a valid receiver {recv}; {ctx}")); } }
    }
    let c0 = tre::CONFIG.load(&deps.storage).unwrap();
    let nt = r.pick(&[None, Some(USER2)]);
    let nr = if r.next() % 2 == 0 { None } else { Some(vec![vec![rt(5, "a", "b")]]) };
    let res = tre::execute(deps.as_mut(), mock_env(), mock_info(who, &[]), tre::ExecuteMsg::UpdateConfig { trader: nt.map(|x| x.to_string()), allowed_swap_routes: nr.clone() });
    let c1 = tre::CONFIG.load(&deps.storage).unwrap();
    match res {
        Ok(_) => {
            if who != ADMIN { return Err(format!("treasury UpdateConfig accepted from {who}; {ctx}")); }
            let want_t = nt.map(|x| x.to_string()).unwrap_or(c0.trader.to_string());
            let want_r = nr.unwrap_or(c0.allowed_swap_routes.clone());
            if c1.trader.as_str() != want_t || c1.allowed_swap_routes != want_r { return Err(format!("treasury UpdateConfig stored {c1:?}; expected trader {want_t} routes {want_r:?}")); }
        }
        Err(_) => {
            if who == ADMIN { return Err(format!("treasury UpdateConfig refused for the admin; {ctx}")); }
            if c1 != c0 { return Err("refused treasury UpdateConfig changed the configuration".into()); }
        }
    }
    Ok(())
}

fn fam_treasury_ownership(r: &mut Rng) -> Result<(), String> {
    let a = addrs("osmo", "celestia");
    #[allow(non_snake_case, unused_variables)]
    let (ADMIN, USER, USER2, ORACLE, STAKER, COLLECTOR, NATIVE_USER) = (a.admin.as_str(), a.user.as_str(), a.user2.as_str(), a.oracle.as_str(), a.staker.as_str(), a.collector.as_str(), a.native_user.as_str());
    let (mut deps, _) = tre_init(r);
    let x = |deps: &mut Deps, t: u64, who: &str, m: tre::ExecuteMsg| tre::execute(deps.as_mut(), env_at(t), mock_info(who, &[]), m);
    let t0 = 1_700_000_000u64 + r.next() % 1000;
    if x(&mut deps, t0, USER, tre::ExecuteMsg::TransferOwnership { new_owner: USER.into() }).is_ok() { return Err("treasury TransferOwnership accepted from a non-admin".into()); }
    x(&mut deps, t0, ADMIN, tre::ExecuteMsg::TransferOwnership { new_owner: USER.into() }).map_err(|e| format!("treasury nomination refused: {e}"))?;
    let renom = r.next() % 2 == 0;
    let t1 = if renom { t0 + 604_799 } else { t0 };
    if renom { x(&mut deps, t1, ADMIN, tre::ExecuteMsg::TransferOwnership { new_owner: USER.into() }).map_err(|e| format!("treasury re-nomination refused: {e}"))?; }
    if x(&mut deps, t1 + 604_799, USER, tre::ExecuteMsg::AcceptOwnership {}).is_ok() { return Err(format!("treasury AcceptOwnership succeeded at 7 days minus one second after the most recent nomination (renominated: {renom})")); }
    if x(&mut deps, t1 + 604_800, USER2, tre::ExecuteMsg::AcceptOwnership {}).is_ok() { return Err("treasury AcceptOwnership succeeded for an account that was not nominated".into()); }
    if r.next() % 3 == 0 {
        if x(&mut deps, t1 + 10, USER, tre::ExecuteMsg::RevokeOwnershipTransfer {}).is_ok() { return Err("treasury RevokeOwnershipTransfer accepted from the nominee".into()); }
        x(&mut deps, t1 + 10, ADMIN, tre::ExecuteMsg::RevokeOwnershipTransfer {}).map_err(|e| format!("treasury revoke refused: {e}"))?;
        if x(&mut deps, t1 + 700_000, USER, tre::ExecuteMsg::AcceptOwnership {}).is_ok() { return Err("treasury AcceptOwnership succeeded after the nomination was revoked".into()); }
        return Ok(());
    }
    x(&mut deps, t1 + 604_800, USER, tre::ExecuteMsg::AcceptOwnership {}).map_err(|e| format!("treasury AcceptOwnership refused exactly 7 days after nomination: {e}"))?;
    if x(&mut deps, t1 + 604_801, ADMIN, tre::ExecuteMsg::UpdateConfig { trader: None, allowed_swap_routes: None }).is_ok() { return Err("former treasury admin still has admin rights after the handover".into()); }
    x(&mut deps, t1 + 604_801, USER, tre::ExecuteMsg::UpdateConfig { trader: None, allowed_swap_routes: None }).map_err(|e| format!("new treasury admin refused: {e}"))?;
    if x(&mut deps, t1 + 604_802, USER, tre::ExecuteMsg::AcceptOwnership {}).is_ok() { return Err("treasury acceptance did not consume the nomination".into()); }
    x(&mut deps, t1 + 700_000, USER, tre::ExecuteMsg::TransferOwnership { new_owner: USER2.into() }).map_err(|e| format!("second treasury nomination refused: {e}"))?;
    if x(&mut deps, t1 + 700_001, USER2, tre::ExecuteMsg::AcceptOwnership {}).is_ok() { return Err("second treasury handover was accepted without waiting 7 days".into()); }
    Ok(())
}

/// Which property clauses a mismatch contradicts (substring of the message -> property ids).
/// Messages that match nothing are set-up failures of the driver and never count as a witness.
const TAGS: &[(&str, &str)] = &[
    ("PANICKED", "C16"),
    ("migration", "C18,C09"),
    ("LiquidStake accepted although", "C04"),
    ("staked total", "C01,C11"),
    ("LST total", "C03,C04"),
    ("fees ", "C01,C02,C11"),
    ("reward counter", "C11"),
    ("mint messages", "C03,C04,C19"),
    ("transfers to the staker", "C01"),
    ("LST delivery", "C03"),
    ("oracle", "C15"),
    ("State query", "C01,C03,C11,C15"),
    ("State query reports rate", "C15"),
    ("changed storage", "C08,C10,C07"),
    ("ReceiveRewards accepted from", "C08,C09"),
    ("ReceiveRewards refused (", "C09,C08"),
    ("ReceiveRewards accepted while no LST", "C11"),
    ("ReceiveRewards accepted although the fee", "C11,C16"),
    ("retained fees", "C11,C02"),
    ("restake transfers", "C11,C01"),
    ("treasury payments", "C11,C02"),
    ("batch total", "C05"),
    ("SubmitBatch succeeded one second before", "C06"),
    ("SubmitBatch refused at/after", "C06"),
    ("totals after submit", "C01,C03,C04"),
    ("burn messages", "C03,C19"),
    ("expected amount", "C04,C06"),
    ("new pending batch", "C06"),
    ("one unbonding period after submission", "C06"),
    ("second pending batch", "C06"),
    ("before the unbonding period", "C06"),
    ("reward collector's hook", "C08,C09"),
    ("ReceiveUnstakedTokens refused", "C09,C08"),
    ("Withdraw refused", "C05,C02"),
    ("Withdraw of", "C05,C02"),
    ("second Withdraw", "C05"),
    ("payouts", "C05,C02"),
    ("without a request", "C05,C08"),
    ("Withdraw from a batch that has not received", "C05,C06"),
    ("succeeded for non-admin", "C08"),
    ("CircuitBreaker succeeded for an ordinary", "C08"),
    ("CircuitBreaker refused for a monitor", "C08,C10"),
    ("CircuitBreaker changed more", "C10"),
    ("halted", "C10"),
    ("ResumeContract succeeded for a monitor", "C08,C10"),
    ("ResumeContract did not set", "C10"),
    ("AcceptOwnership", "C12,C08"),
    ("handover", "C12"),
    ("nomination", "C12"),
    ("former", "C12"),
    ("FeeWithdraw", "C11,C02"),
    ("accepted by validation", "C14"),
    ("surrounding blanks", "C14,C19"),
    ("upper-case prefix", "C14"),
    ("UpdateConfig", "C14"),
    ("recovery accepted although", "C07,C01,C02,C03"),
    ("not tracked for a reply", "C07,C01"),
    ("reply", "C07,C01,C02"),
    ("acknowledgement", "C07,C01,C02"),
    ("timeout", "C07,C01,C02"),
    ("after the reply", "C07,C01"),
    ("still recorded after", "C07"),
    ("refundable", "C07,C02"),
    ("forced recovery by a non-admin", "C07,C08"),
    ("recovery refused", "C07"),
    ("recovery sent", "C07,C01,C02,C03"),
    ("still recorded", "C07"),
    ("not selected was removed", "C07"),
    ("not tracked for a reply", "C07"),
    ("Swap", "C13"),
    ("swap", "C13"),
    ("SpendFunds", "C13"),
    ("treasury UpdateConfig", "C13"),
    ("accepted by the dispatcher", "C08"),
    ("EMPTY pending batch", "C06"),
    ("already Received", "C06,C02,C05"),
    ("not halted", "C10"),
    ("non-zero totals", "C01,C03"),
    ("at instantiation", "C06"),
    ("create-denom", "C19"),
    ("instantiate configured the LST denom", "C19,C14"),
    ("instantiate with a well-formed", "C14"),
    ("ResumeContract refused for the admin", "C08,C10,C12"),
    ("type URL", "C20"),
    ("Any ", "C20"),
    ("wire bytes", "C20"),
    ("page", "C17"),
    ("paging", "C17"),
    ("Batches", "C17"),
    ("UnstakeRequests", "C17,C05"),
    ("BatchesByIds", "C17"),
];

fn tags_for(msg: &str) -> Vec<&'static str> {
    let mut out: Vec<&'static str> = vec![];
    for part in msg.split(" || ") {
        for t in tags_for1(part) { if !out.contains(&t) { out.push(t); } }
    }
    out
}

fn tags_for1(msg: &str) -> Vec<&'static str> {
    let mut out: Vec<&'static str> = vec![];
    // only the statement of the mismatch counts, not the scenario dump that follows the first `;`
    let msg = msg.split(';').next().unwrap_or(msg);
    if msg.contains("PANICKED") { out.push("C16"); }
    // the most specific (longest) matching row decides
    let mut best: Option<(&str, &str)> = None;
    for (k, t) in TAGS {
        if *k != "PANICKED" && msg.contains(k) && best.map_or(true, |(bk, _)| k.len() > bk.len()) { best = Some((*k, *t)); }
    }
    if let Some((_, t)) = best {
        for x in t.split(',') { if !out.contains(&x) { out.push(x); } }
    }
    out
}

fn restore(snapshot: &[(Vec<u8>, Vec<u8>)]) -> Deps {
    let mut d = mock_dependencies();
    for (k, v) in snapshot { d.storage.set(k, v); }
    d
}

/// every value-moving operation that would succeed on a running contract fails without effect once halted
fn fam_halt(r: &mut Rng) -> Result<(), String> {
    let mut s = scenario(r);
    if s.tl < 100 { s.tl = 1_000; s.tn = 1_500; }
    let a = addrs(s.pp, s.np);
    #[allow(non_snake_case, unused_variables)]
    let (ADMIN, USER, USER2, ORACLE, STAKER, COLLECTOR, NATIVE_USER) = (a.admin.as_str(), a.user.as_str(), a.user2.as_str(), a.oracle.as_str(), a.staker.as_str(), a.collector.as_str(), a.native_user.as_str());
    let mut deps = init(&s);
    let lst = CONFIG.load(&deps.storage).unwrap().liquid_stake_token_denom;
    let q = (s.tl / 20).max(1);
    let t0 = mock_env().block.time.seconds();
    let go = |deps: &mut Deps, t: u64, who: &str, funds: &[Coin], m: ExecuteMsg| execute(deps.as_mut(), env_at(t), mock_info(who, funds), m);
    // batch 1 Received, batch 2 Submitted, batch 3 pending and non-empty
    go(&mut deps, t0, USER, &coins(q, &lst), ExecuteMsg::LiquidUnstake {}).map_err(|e| format!("set-up: {e}"))?;
    go(&mut deps, t0 + 86_400, USER2, &[], ExecuteMsg::SubmitBatch {}).map_err(|e| format!("set-up: {e}"))?;
    go(&mut deps, t0 + 86_401, USER, &coins(q, &lst), ExecuteMsg::LiquidUnstake {}).map_err(|e| format!("set-up: {e}"))?;
    go(&mut deps, t0 + 2 * 86_400, USER2, &[], ExecuteMsg::SubmitBatch {}).map_err(|e| format!("set-up: {e}"))?;
    go(&mut deps, t0 + 2 * 86_400 + 1, USER, &coins(q, &lst), ExecuteMsg::LiquidUnstake {}).map_err(|e| format!("set-up: {e}"))?;
    let late = t0 + 3 * 86_400 + 1_209_600 + 10;
    let exp1 = BATCHES.load(&deps.storage, 1).unwrap().expected_native_unstaked.unwrap().u128().max(1);
    go(&mut deps, late, &hook_p(STAKER, s.pp), &coins(exp1, IBC_DENOM), ExecuteMsg::ReceiveUnstakedTokens { batch_id: 1 }).map_err(|e| format!("set-up: {e}"))?;
    let running = dump(&deps.storage);
    let by = r.pick(&[ADMIN, USER2]);
    go(&mut deps, late, by, &[], ExecuteMsg::CircuitBreaker {}).map_err(|e| format!("CircuitBreaker refused for a monitor or the admin: {e}"))?;
    let halted = dump(&deps.storage);
    let ops: Vec<(&str, String, Vec<Coin>, ExecuteMsg)> = vec![
        ("LiquidStake", USER.into(), coins(1_000_000, IBC_DENOM), ExecuteMsg::LiquidStake { mint_to: None, transfer_to_native_chain: None, expected_mint_amount: None }),
        ("LiquidUnstake", USER.into(), coins(1, &lst), ExecuteMsg::LiquidUnstake {}),
        ("SubmitBatch", USER.into(), vec![], ExecuteMsg::SubmitBatch {}),
        ("Withdraw", USER.into(), vec![], ExecuteMsg::Withdraw { batch_id: 1 }),
        ("ReceiveRewards", hook_p(COLLECTOR, s.pp), coins(1_000, IBC_DENOM), ExecuteMsg::ReceiveRewards {}),
        ("ReceiveUnstakedTokens", hook_p(STAKER, s.pp), coins(1_000, IBC_DENOM), ExecuteMsg::ReceiveUnstakedTokens { batch_id: 2 }),
    ];
    for (name, who, funds, m) in ops {
        // control: on the running contract the very same call succeeds
        let mut ctl = restore(&running);
        if go(&mut ctl, late, &who, &funds, m.clone()).is_err() { continue; }
        let mut h = restore(&halted);
        match go(&mut h, late, &who, &funds, m) {
            Ok(_) => return Err(format!("{name} succeeded while the contract is halted (halted by {by}); scenario {s:?}")),
            Err(_) => if dump(&h.storage) != halted { return Err(format!("{name} failed while halted but changed storage; scenario {s:?}")); }
        }
    }
    Ok(())
}

/// UpdateConfig is sectional and validates every section against the configuration it will be stored with
fn fam_config(r: &mut Rng) -> Result<(), String> {
    let s = scenario(r);
    let a = addrs(s.pp, s.np);
    #[allow(non_snake_case, unused_variables)]
    let (ADMIN, USER, USER2, ORACLE, STAKER, COLLECTOR, NATIVE_USER) = (a.admin.as_str(), a.user.as_str(), a.user2.as_str(), a.oracle.as_str(), a.staker.as_str(), a.collector.as_str(), a.native_user.as_str());
    let mut deps = init(&s);
    let c0 = CONFIG.load(&deps.storage).unwrap();
    let newp = if s.pp == "milk" { "osmo" } else { "milk" };
    // channel ids: well-formed ones must be accepted; whatever is accepted is used VERBATIM in the ibc-hooks derivation
    let chan: String = r.pick(&["channel-9", "channel-9", "channel-0", "channel-18446744073709551615", "9", "123", "channel-channel-9"]).to_string();
    let chan_ok = chan.strip_prefix("channel-").map_or(false, |d| !d.is_empty() && d.bytes().all(|b| b.is_ascii_digit()));
    let pc = |prefix: &str| UnsafeProtocolChainConfig { account_address_prefix: prefix.into(), ibc_token_denom: IBC_DENOM.into(), ibc_channel_id: chan.clone(), oracle_address: None, minimum_liquid_stake_amount: Uint128::new(5) };
    let fc = |t: String| UnsafeProtocolFeeConfig { dao_treasury_fee: Uint128::new(500), treasury_address: Some(t) };
    match r.next() % 4 {
        0 => {
            // both sections, new prefix: the treasury must be an address of the NEW prefix
            let msg = |t: String| ExecuteMsg::UpdateConfig { native_chain_config: None, protocol_chain_config: Some(pc(newp)), protocol_fee_config: Some(fc(t)), monitors: Some(vec![]), batch_period: None };
            if execute(deps.as_mut(), mock_env(), mock_info(ADMIN, &[]), msg(b32(s.pp, 30))).is_ok() {
                let c = CONFIG.load(&deps.storage).unwrap();
                return Err(format!("UpdateConfig stored treasury {:?} next to protocol prefix {:?}", c.protocol_fee_config.treasury_address, c.protocol_chain_config.account_address_prefix));
            }
            if CONFIG.load(&deps.storage).unwrap() != c0 { return Err("refused UpdateConfig changed storage".into()); }
            let res = execute(deps.as_mut(), mock_env(), mock_info(ADMIN, &[]), msg(b32(newp, 30)));
            if !chan_ok {
                // a malformed channel id: refusal is right; acceptance is a validation failure, and the derivation check below still applies
                if res.is_err() { return Ok(()); }
            } else {
                res.map_err(|e| format!("UpdateConfig with prefix {newp} and a treasury under {newp} refused: {e}"))?;
            }
            let c = CONFIG.load(&deps.storage).unwrap();
            let mut problems: Vec<String> = vec![];
            if !chan_ok { problems.push(format!("channel id {chan:?} was accepted by validation (UpdateConfig)")); }
            if c.protocol_chain_config.account_address_prefix != newp || c.protocol_fee_config.treasury_address.as_ref().map(|x| x.to_string()) != Some(b32(newp, 30)) || c.protocol_chain_config.ibc_channel_id != chan
                || c.native_chain_config != c0.native_chain_config || c.batch_period != c0.batch_period || c.liquid_stake_token_denom != c0.liquid_stake_token_denom || c.stopped != c0.stopped || !c.monitors.is_empty() {
                problems.push(format!("UpdateConfig (protocol + fee + monitors sections) stored {c:?} from {c0:?}"));
            }
            // the update replaced the monitor list by the empty list: the former monitor may no longer halt the contract
            if execute(deps.as_mut(), mock_env(), mock_info(USER2, &[]), ExecuteMsg::CircuitBreaker {}).is_ok() {
                problems.push("CircuitBreaker succeeded for an ordinary account: the monitor dismissed by the preceding UpdateConfig { monitors: [] }".into());
                let mut cc = CONFIG.load(&deps.storage).unwrap(); cc.stopped = false; CONFIG.save(&mut deps.storage, &cc).unwrap();
            }
            // the cross-chain senders follow the new channel and prefix at once
            let st = STATE.load(&deps.storage).unwrap();
            if st.total_liquid_stake_token.u128() != 0 && in_dom(st.total_native_token.u128() + 1000, st.total_liquid_stake_token.u128()) {
                let old_hook = hook_pc(COLLECTOR, s.pp, CHANNEL);
                let new_hook = hook_pc(COLLECTOR, newp, &chan);
                if execute(deps.as_mut(), mock_env(), mock_info(&old_hook, &coins(1000, IBC_DENOM)), ExecuteMsg::ReceiveRewards {}).is_ok() { problems.push(format!("ReceiveRewards accepted from {old_hook}, the ibc-hooks account of the channel and prefix that UpdateConfig just replaced")); }
                else if let Err(e) = execute(deps.as_mut(), mock_env(), mock_info(&new_hook, &coins(1000, IBC_DENOM)), ExecuteMsg::ReceiveRewards {}) { problems.push(format!("ReceiveRewards refused ({e}) for the ibc-hooks account of the newly configured channel {chan:?} and prefix")); }
            }
            if !problems.is_empty() { return Err(problems.join(" || ")); }
        }
        1 => {
            // only monitors + batch period
            let dup = r.next() % 2 == 0;
            // a repeated entry need not be adjacent
            let mons = if dup { if r.next() % 2 == 0 { vec![b32(s.pp, 40), b32(s.pp, 40)] } else { vec![b32(s.pp, 40), b32(s.pp, 41), b32(s.pp, 40)] } } else { vec![b32(s.pp, 40), b32(s.pp, 41)] };
            let res = execute(deps.as_mut(), mock_env(), mock_info(ADMIN, &[]), ExecuteMsg::UpdateConfig { native_chain_config: None, protocol_chain_config: None, protocol_fee_config: None, monitors: Some(mons.clone()), batch_period: Some(777) });
            let c = CONFIG.load(&deps.storage).unwrap();
            match res {
                Ok(_) => {
                    if dup { return Err("UpdateConfig accepted a monitor listed twice".into()); }
                    let want = Config { monitors: mons.iter().map(|m| cosmwasm_std::Addr::unchecked(m.clone())).collect(), batch_period: 777, ..c0.clone() };
                    if c != want { return Err(format!("UpdateConfig (monitors + batch period only) stored {c:?}, expected {want:?}")); }
                }
                Err(e) => {
                    if !dup { return Err(format!("UpdateConfig with two distinct monitors refused: {e}")); }
                    if c != c0 { return Err("refused UpdateConfig changed storage".into()); }
                }
            }
        }
        2 => {
            // native section: staker under the wrong prefix / validator listed twice / good
            let bad = r.next() % 3;
            let nv = b32(&format!("{}valoper", s.np), 50);
            let n = UnsafeNativeChainConfig {
                token_denom: "utia".into(), account_address_prefix: s.np.into(), validator_address_prefix: format!("{}valoper", s.np),
                validators: if bad == 1 { if r.next() % 2 == 0 { vec![nv.clone(), nv.clone()] } else { vec![nv.clone(), b32(&format!("{}valoper", s.np), 53), nv.clone()] } } else { vec![nv.clone()] },
                unbonding_period: 100, staker_address: if bad == 2 { b32("cosmos", 51) } else { b32(s.np, 51) }, reward_collector_address: b32(s.np, 52),
            };
            let res = execute(deps.as_mut(), mock_env(), mock_info(ADMIN, &[]), ExecuteMsg::UpdateConfig { native_chain_config: Some(n), protocol_chain_config: None, protocol_fee_config: None, monitors: None, batch_period: None });
            let c = CONFIG.load(&deps.storage).unwrap();
            match res {
                Ok(_) => {
                    if bad == 1 { return Err("UpdateConfig accepted a validator listed twice".into()); }
                    if bad == 2 { return Err("UpdateConfig accepted a staker address under a foreign prefix".into()); }
                    if c.native_chain_config.staker_address.as_str() != b32(s.np, 51) || c.native_chain_config.unbonding_period != 100 || c.protocol_chain_config != c0.protocol_chain_config || c.protocol_fee_config != c0.protocol_fee_config || c.monitors != c0.monitors || c.batch_period != c0.batch_period || c.stopped != c0.stopped || c.liquid_stake_token_denom != c0.liquid_stake_token_denom {
                        return Err(format!("UpdateConfig (native section only) stored {c:?} from {c0:?}"));
                    }
                }
                Err(e) => {
                    if bad == 0 { return Err(format!("UpdateConfig with a well-formed native section refused: {e}")); }
                    if c != c0 { return Err("refused UpdateConfig changed storage".into()); }
                }
            }
        }
        _ => {
            // validators
            let v9 = b32(&format!("{}valoper", s.np), 9);
            let x = |deps: &mut Deps, m: ExecuteMsg| execute(deps.as_mut(), mock_env(), mock_info(ADMIN, &[]), m);
            if x(&mut deps, ExecuteMsg::AddValidator { new_validator: a.val.clone() }).is_ok() { return Err("UpdateConfig/AddValidator accepted a validator that is already listed".into()); }
            if x(&mut deps, ExecuteMsg::AddValidator { new_validator: b32(s.np, 9) }).is_ok() { return Err("UpdateConfig/AddValidator accepted an address without the validator prefix".into()); }
            if x(&mut deps, ExecuteMsg::RemoveValidator { validator: v9.clone() }).is_ok() { return Err("UpdateConfig/RemoveValidator accepted an unknown validator".into()); }
            x(&mut deps, ExecuteMsg::AddValidator { new_validator: v9.clone() }).map_err(|e| format!("UpdateConfig/AddValidator of a fresh validator refused: {e}"))?;
            let c = CONFIG.load(&deps.storage).unwrap();
            let vs: Vec<String> = c.native_chain_config.validators.iter().map(|v| v.to_string()).collect();
            if vs != vec![a.val.clone(), v9.clone()] { return Err(format!("UpdateConfig/AddValidator stored validators {vs:?}")); }
            x(&mut deps, ExecuteMsg::RemoveValidator { validator: a.val.clone() }).map_err(|e| format!("UpdateConfig/RemoveValidator of a listed validator refused: {e}"))?;
            let c2 = CONFIG.load(&deps.storage).unwrap();
            let vs: Vec<String> = c2.native_chain_config.validators.iter().map(|v| v.to_string()).collect();
            if vs != vec![v9] { return Err(format!("UpdateConfig/RemoveValidator stored validators {vs:?}")); }
        }
    }
    Ok(())
}

/// paging through Batches / IbcQueue returns every matching record exactly once, in order (C17)
fn fam_queries(r: &mut Rng) -> Result<(), String> {
    use milky_way::staking::{Batch, BatchStatus};
    use staking::contract::query;
    use staking::msg::{BatchesResponse, IBCQueueResponse, QueryMsg};
    use staking::state::ibc::{IBCTransfer, PacketLifecycleStatus as PS};
    use staking::state::{UnstakeRequest, INFLIGHT_PACKETS};
    let mut s = scenario(r);
    if s.tl < 100 { s.tl = 1_000; s.tn = 1_500; }
    let a = addrs(s.pp, s.np);
    #[allow(non_snake_case, unused_variables)]
    let (ADMIN, USER, USER2, ORACLE, STAKER, COLLECTOR, NATIVE_USER) = (a.admin.as_str(), a.user.as_str(), a.user2.as_str(), a.oracle.as_str(), a.staker.as_str(), a.collector.as_str(), a.native_user.as_str());
    let mut deps = init(&s);
    if r.next() % 2 == 0 {
        // stored batches with arbitrary statuses; the pending one has the highest id
        let n = 2 + r.next() % 12;
        let mut all: Vec<(u64, BatchStatus)> = vec![];
        for id in 1..=n {
            let st = if id == n { BatchStatus::Pending } else { [BatchStatus::Submitted, BatchStatus::Received, BatchStatus::Received][(r.next() % 3) as usize].clone() };
            let mut b = Batch::new(id, Uint128::new(10 * id as u128), 1000 + id);
            b.status = st.clone();
            if st == BatchStatus::Received { b.next_batch_action_time = None; b.received_native_unstaked = Some(Uint128::new(9 * id as u128)); b.expected_native_unstaked = Some(Uint128::new(9 * id as u128)); }
            if st == BatchStatus::Submitted { b.expected_native_unstaked = Some(Uint128::new(9 * id as u128)); }
            BATCHES.save(&mut deps.storage, id, &b).unwrap();
            all.push((id, st));
        }
        PENDING_BATCH_ID.save(&mut deps.storage, &n).unwrap();
        let filter = [None, Some(BatchStatus::Received), Some(BatchStatus::Submitted), Some(BatchStatus::Pending)][(r.next() % 4) as usize].clone();
        let limit = 1 + (r.next() % 5) as u32;
        let start = r.pick(&[None, None, Some(0u64), Some(1), Some(3)]);
        let want: Vec<u64> = all.iter().filter(|(id, st)| start.map_or(true, |c| *id > c) && filter.as_ref().map_or(true, |f| f == st)).map(|(id, _)| *id).collect();
        let ctx = format!("batches {all:?}; status filter {filter:?} page size {limit} start_after {start:?}");
        let mut got: Vec<u64> = vec![];
        let mut cursor = start;
        for _ in 0..40 {
            let bin = query(deps.as_ref(), mock_env(), QueryMsg::Batches { start_after: cursor, limit: Some(limit), status: filter.clone() }).map_err(|e| format!("Batches page query failed: {e}; {ctx}"))?;
            let page: BatchesResponse = cosmwasm_std::from_json(&bin).unwrap();
            let ids: Vec<u64> = page.batches.iter().map(|b| b.id).collect();
            if ids.len() > limit as usize { return Err(format!("a Batches page has {} entries, page size is {limit}; {ctx}", ids.len())); }
            let remaining = want.len() - got.len().min(want.len());
            if ids.len() < (limit as usize).min(remaining) { return Err(format!("a Batches page returned {ids:?} although {remaining} matching batches remain after cursor {cursor:?}; {ctx}")); }
            if ids.is_empty() { break; }
            cursor = ids.last().copied();
            got.extend(ids);
        }
        if got != want { return Err(format!("paging through Batches returned {got:?}, the matching batches are {want:?}; {ctx}")); }
        // by ids
        let ids: Vec<u64> = (0..4).map(|_| 1 + r.next() % (n + 3)).collect();
        let bin = query(deps.as_ref(), mock_env(), QueryMsg::BatchesByIds { ids: ids.clone() }).map_err(|e| format!("BatchesByIds failed: {e}"))?;
        let page: BatchesResponse = cosmwasm_std::from_json(&bin).unwrap();
        let got: Vec<u64> = page.batches.iter().map(|b| b.id).collect();
        let want: Vec<u64> = ids.iter().copied().filter(|i| *i <= n).collect();
        if got != want { return Err(format!("BatchesByIds {ids:?} returned {got:?}, the existing requested batches are {want:?}")); }
        // in-flight queue
        let m = r.next() % 9;
        let mut seqs = vec![];
        for i in 0..m {
            let id = 5 + 3 * i + r.next() % 3;
            INFLIGHT_PACKETS.save(&mut deps.storage, id, &IBCTransfer { sequence: id, amount: Coin::new(7, IBC_DENOM), receiver: STAKER.into(), status: PS::Sent }).unwrap();
            seqs.push(id);
        }
        let mut got = vec![];
        let mut cursor = None;
        for _ in 0..40 {
            let bin = query(deps.as_ref(), mock_env(), QueryMsg::IbcQueue { start_after: cursor, limit: Some(limit) }).map_err(|e| format!("IbcQueue page query failed: {e}"))?;
            let page: IBCQueueResponse = cosmwasm_std::from_json(&bin).unwrap();
            let ids: Vec<u64> = page.ibc_queue.iter().map(|p| p.sequence).collect();
            if ids.is_empty() { break; }
            cursor = ids.last().copied();
            got.extend(ids);
        }
        if got != seqs { return Err(format!("paging through IbcQueue (page size {limit}) returned {got:?}, recorded transfers are {seqs:?}")); }
    } else {
        // the per-user index through unstakes, a submission, a receipt and a withdrawal
        let lst = CONFIG.load(&deps.storage).unwrap().liquid_stake_token_denom;
        let q = (s.tl / 20).max(1);
        let t0 = mock_env().block.time.seconds();
        let reqs = |deps: &Deps, user: &str| -> Vec<(u64, u128)> {
            let bin = query(deps.as_ref(), mock_env(), QueryMsg::UnstakeRequests { user: cosmwasm_std::Addr::unchecked(user) }).unwrap();
            let v: Vec<UnstakeRequest> = cosmwasm_std::from_json(&bin).unwrap();
            let mut o: Vec<(u64, u128)> = v.iter().map(|x| { assert_eq!(x.user, user); (x.batch_id, x.amount.u128()) }).collect();
            o.sort();
            o
        };
        let go = |deps: &mut Deps, t: u64, who: &str, funds: &[Coin], m: ExecuteMsg| execute(deps.as_mut(), env_at(t), mock_info(who, funds), m).map_err(|e| format!("set-up: {e}"));
        let k = 1 + r.next() as u128 % 3;
        go(&mut deps, t0, USER, &coins(q, &lst), ExecuteMsg::LiquidUnstake {})?;
        go(&mut deps, t0, USER2, &coins(2 * q, &lst), ExecuteMsg::LiquidUnstake {})?;
        go(&mut deps, t0, USER, &coins(k, &lst), ExecuteMsg::LiquidUnstake {})?;
        let (u1, u2) = (reqs(&deps, USER), reqs(&deps, USER2));
        if u1 != vec![(1, q + k)] || u2 != vec![(1, 2 * q)] { return Err(format!("UnstakeRequests after unstakes {q}+{k} (user) and {} (user2) in batch 1: {u1:?} / {u2:?}", 2 * q)); }
        go(&mut deps, t0 + 86_400, USER2, &[], ExecuteMsg::SubmitBatch {})?;
        go(&mut deps, t0 + 86_401, USER, &coins(3, &lst), ExecuteMsg::LiquidUnstake {})?;
        let u1 = reqs(&deps, USER);
        if u1 != vec![(1, q + k), (2, 3)] { return Err(format!("UnstakeRequests of the user with open requests in batches 1 and 2: {u1:?}, expected [(1, {}), (2, 3)]", q + k)); }
        let exp = BATCHES.load(&deps.storage, 1).unwrap().expected_native_unstaked.unwrap().u128().max(1);
        go(&mut deps, t0 + 86_400 + 1_209_600, &hook_p(STAKER, s.pp), &coins(exp, IBC_DENOM), ExecuteMsg::ReceiveUnstakedTokens { batch_id: 1 })?;
        go(&mut deps, t0 + 86_400 + 1_209_601, USER, &[], ExecuteMsg::Withdraw { batch_id: 1 })?;
        let (u1, u2) = (reqs(&deps, USER), reqs(&deps, USER2));
        if u1 != vec![(2, 3)] || u2 != vec![(1, 2 * q)] { return Err(format!("UnstakeRequests after the user withdrew from batch 1: {u1:?} / {u2:?}, expected [(2, 3)] / [(1, {})]", 2 * q)); }
    }
    Ok(())
}

/// IBC lifecycle: the stake transfer is tracked from reply to acknowledgement (C07, C01, C02)
fn fam_ibc(r: &mut Rng) -> Result<(), String> {
    use cosmwasm_std::{Binary, Reply, SubMsgResponse, SubMsgResult};
    use osmosis_std::types::ibc::applications::transfer::v1::MsgTransferResponse;
    use staking::contract::{reply, sudo};
    use staking::msg::{IBCLifecycleComplete, SudoMsg};
    use staking::state::ibc::{IBCTransfer, PacketLifecycleStatus as PS};
    use staking::state::{IBC_WAITING_FOR_REPLY, INFLIGHT_PACKETS};
    let mut s = scenario(r);
    if s.tl == 0 { s.tn = 0; }
    let a = addrs(s.pp, s.np);
    #[allow(non_snake_case, unused_variables)]
    let (ADMIN, USER, USER2, ORACLE, STAKER, COLLECTOR, NATIVE_USER) = (a.admin.as_str(), a.user.as_str(), a.user2.as_str(), a.oracle.as_str(), a.staker.as_str(), a.collector.as_str(), a.native_user.as_str());
    let mut deps = init(&s);
    let amount = 1_000_000u128;
    let resp = execute(deps.as_mut(), mock_env(), mock_info(USER, &coins(amount, IBC_DENOM)), ExecuteMsg::LiquidStake { mint_to: None, transfer_to_native_chain: None, expected_mint_amount: None }).map_err(|e| format!("set-up: {e}"))?;
    let id = resp.messages.iter().find(|m| m.id != 0).map(|m| m.id).ok_or("set-up: no sub message")?;
    let w = IBC_WAITING_FOR_REPLY.may_load(&deps.storage, id).unwrap();
    if w.as_ref().map(|w| (w.amount.amount.u128(), w.receiver.clone())) != Some((amount, STAKER.to_string())) { return Err(format!("stake transfer is not tracked for a reply: {w:?}")); }
    let seq = 40 + r.next() % 5;
    let data = |q: u64| Some(Binary::from(MsgTransferResponse { sequence: q }.encode_to_vec()));
    // a reply for an unknown id, and a failed submission, must be errors (the whole transaction is then rolled back)
    let before = dump(&deps.storage);
    if reply(deps.as_mut(), mock_env(), Reply { id: id + 7, result: SubMsgResult::Ok(SubMsgResponse { events: vec![], data: data(seq) }) }).is_ok() { return Err("reply for an id nobody waits for was accepted".into()); }
    let failed = if r.next() % 2 == 0 { SubMsgResult::Err("channel closed".into()) } else { SubMsgResult::Ok(SubMsgResponse { events: vec![], data: None }) };
    if r.next() % 3 == 0 {
        if reply(deps.as_mut(), mock_env(), Reply { id, result: failed.clone() }).is_ok() { return Err(format!("reply reporting that the transfer could not be submitted ({failed:?}) returned Ok: the operation that requested it is not rolled back")); }
        if dump(&deps.storage) != before { return Err("refused reply changed storage".into()); }
    }
    reply(deps.as_mut(), mock_env(), Reply { id, result: SubMsgResult::Ok(SubMsgResponse { events: vec![], data: data(seq) }) }).map_err(|e| format!("reply of the submitted transfer refused: {e}"))?;
    let want = IBCTransfer { sequence: seq, amount: Coin::new(amount, IBC_DENOM), receiver: STAKER.to_string(), status: PS::Sent };
    let got = INFLIGHT_PACKETS.may_load(&deps.storage, seq).unwrap();
    if got.as_ref() != Some(&want) || IBC_WAITING_FOR_REPLY.may_load(&deps.storage, id).unwrap().is_some() { return Err(format!("after the reply the transfer is recorded as {got:?}, expected {want:?} and no pending reply")); }
    // in flight: nobody but the admin can re-send it
    if execute(deps.as_mut(), mock_env(), mock_info(USER, &[]), ExecuteMsg::RecoverPendingIbcTransfers { paginated: None, selected_packets: None, receiver: None }).is_ok() { return Err("recovery accepted although it selects a transfer that is still in flight".into()); }
    // stray acknowledgements and timeouts change nothing
    // the callbacks arrive as the JSON the ibc-hooks module sends (x/ibc-hooks, `sudo` with `ibc_lifecycle_complete`): decode that,
    // as the wasm entry point does, instead of building the Rust values
    let decode_sudo = |js: String| -> Result<SudoMsg, String> { cosmwasm_std::from_json::<SudoMsg>(js.as_bytes()).map_err(|e| format!("the ibc-hooks callback {js} does not decode as SudoMsg ({e}): the acknowledgement / timeout is never delivered")) };
    let ack_msg = |ch: &str, q: u64, ok: bool| decode_sudo(format!("{{\"ibc_lifecycle_complete\":{{\"ibc_ack\":{{\"channel\":\"{ch}\",\"sequence\":{q},\"ack\":\"{{}}\",\"success\":{ok}}}}}}}"));
    let to_msg = |ch: &str, q: u64| decode_sudo(format!("{{\"ibc_lifecycle_complete\":{{\"ibc_timeout\":{{\"channel\":\"{ch}\",\"sequence\":{q}}}}}}}"));
    {
        let a = ack_msg(CHANNEL, 1, true)?;
        let t = to_msg(CHANNEL, 1)?;
        if a != SudoMsg::IBCLifecycleComplete(IBCLifecycleComplete::IBCAck { channel: CHANNEL.into(), sequence: 1, ack: "{}".into(), success: true })
            || t != SudoMsg::IBCLifecycleComplete(IBCLifecycleComplete::IBCTimeout { channel: CHANNEL.into(), sequence: 1 }) {
            return Err(format!("the ibc-hooks acknowledgement / timeout JSON decodes to {a:?} / {t:?}"));
        }
    }
    let sudo_ack = |deps: &mut Deps, ch: &str, q: u64, ok: bool| sudo(deps.as_mut(), mock_env(), ack_msg(ch, q, ok).unwrap());
    let sudo_to = |deps: &mut Deps, ch: &str, q: u64| sudo(deps.as_mut(), mock_env(), to_msg(ch, q).unwrap());
    let before = dump(&deps.storage);
    let ok = r.next() % 2 == 0;
    let _ = sudo_ack(&mut deps, "channel-7", seq, ok);
    if dump(&deps.storage) != before { return Err(format!("acknowledgement (success: {ok}) for another channel changed the record of transfer {seq}")); }
    let _ = sudo_to(&mut deps, "channel-7", seq);
    if dump(&deps.storage) != before { return Err(format!("timeout for another channel changed the record of transfer {seq}")); }
    let _ = sudo_ack(&mut deps, CHANNEL, seq + 100, ok);
    let _ = sudo_to(&mut deps, CHANNEL, seq + 101);
    if dump(&deps.storage) != before { return Err("acknowledgement or timeout for an unknown sequence changed storage".into()); }
    // the real outcome
    match r.next() % 3 {
        0 => {
            sudo_ack(&mut deps, CHANNEL, seq, true).map_err(|e| format!("success acknowledgement refused: {e}"))?;
            if INFLIGHT_PACKETS.may_load(&deps.storage, seq).unwrap().is_some() { return Err("delivered transfer is still recorded after its success acknowledgement".into()); }
        }
        k => {
            if k == 1 { sudo_ack(&mut deps, CHANNEL, seq, false).map_err(|e| format!("failure acknowledgement refused: {e}"))?; } else { sudo_to(&mut deps, CHANNEL, seq).map_err(|e| format!("timeout refused: {e}"))?; }
            let st = if k == 1 { PS::AckFailure } else { PS::TimedOut };
            let got = INFLIGHT_PACKETS.may_load(&deps.storage, seq).unwrap();
            if got != Some(IBCTransfer { status: st.clone(), ..want.clone() }) { return Err(format!("failed or timed-out transfer is recorded as {got:?}, expected it to stay recorded as refundable ({st:?})")); }
            let resp = execute(deps.as_mut(), mock_env(), mock_info(USER, &[]), ExecuteMsg::RecoverPendingIbcTransfers { paginated: None, selected_packets: None, receiver: None }).map_err(|e| format!("recovery refused ({e}) for a refundable transfer"))?;
            let sent = decode(&resp);
            let tr: Vec<_> = sent.iter().filter_map(|x| if let Sent::Transfer { amount, denom, receiver, .. } = x { Some((amount.clone(), denom.clone(), receiver.clone())) } else { None }).collect();
            if tr != vec![(amount.to_string(), IBC_DENOM.to_string(), STAKER.to_string())] { return Err(format!("recovery sent {tr:?}, expected the refunded {amount} to the staker")); }
            if execute(deps.as_mut(), mock_env(), mock_info(USER, &[]), ExecuteMsg::RecoverPendingIbcTransfers { paginated: None, selected_packets: None, receiver: None }).is_ok() { return Err("recovery accepted although it selects nothing to recover (the transfer was already re-sent)".into()); }
        }
    }
    Ok(())
}

/// migrations: version gate, field-by-field translation, every tracked transfer kept (C18)
fn fam_migrate(r: &mut Rng) -> Result<(), String> {
    use staking::contract::migrate;
    use staking::migrations::states::{v0_4_18, v0_4_20, v1_0_0};
    use staking::msg::MigrateMsg;
    use staking::state::ibc::PacketLifecycleStatus as PS;
    use staking::state::{IBC_WAITING_FOR_REPLY, INFLIGHT_PACKETS};
    use cosmwasm_std::Addr;
    let mut s = scenario(r);
    s.pp = "osmo"; s.np = "celestia";
    let a = addrs(s.pp, s.np);
    let mut deps = init(&s);
    let name = "staking";
    let others = |d: &Deps| -> Vec<(Vec<u8>, Vec<u8>)> { dump(&d.storage).into_iter().filter(|(k, _)| { let t = String::from_utf8_lossy(k); !t.contains("inflight") && !t.contains("ibc_waiting_for_reply") && !t.contains("contract_info") && t != "config" }).collect() };
    match r.next() % 3 {
        0 => {
            cw2::set_contract_version(&mut deps.storage, name, "1.0.0").unwrap();
            let n = r.next() % 6;
            let mut olds = vec![];
            for i in 0..n {
                let p = v1_0_0::IBCTransfer { sequence: 100 + i, amount: r.amount().min(10u128.pow(24)), status: [PS::Sent, PS::AckFailure, PS::TimedOut, PS::AckSuccess][(r.next() % 4) as usize].clone() };
                let key = if r.next() % 4 == 0 { 500 + i } else { p.sequence };
                cw_storage_plus::Map::<u64, v1_0_0::IBCTransfer>::new("inflight").save(&mut deps.storage, key, &p).unwrap();
                olds.push((key, p));
            }
            let m = r.next() % 3;
            let mut oldw = vec![];
            for i in 0..m {
                let w = v1_0_0::IbcWaitingForReply { amount: r.amount().min(10u128.pow(24)) };
                cw_storage_plus::Map::<u64, v1_0_0::IbcWaitingForReply>::new("ibc_waiting_for_reply").save(&mut deps.storage, 9000 + i, &w).unwrap();
                oldw.push((9000 + i, w));
            }
            // gate: wrong source version / other contract / not newer
            for (nm, ver, why) in [(name, "0.4.20", "from version 0.4.20 through the 1.0.0->1.1.0 path"), (name, "1.0.1", "from version 1.0.1 through the 1.0.0->1.1.0 path (the source version must match exactly)"), (name, "1.0.7", "from version 1.0.7 through the 1.0.0->1.1.0 path (the source version must match exactly)"), ("other-contract", "1.0.0", "for a different contract name"), (name, "1.1.0", "to the same version"), (name, "2.0.0", "from a newer version")] {
                let mut d2 = restore(&dump(&deps.storage));
                cw2::set_contract_version(&mut d2.storage, nm, ver).unwrap();
                let before = dump(&d2.storage);
                if migrate(d2.as_mut(), mock_env(), MigrateMsg::V1_0_0ToV1_1_0 {}).is_ok() { return Err(format!("migration accepted {why}")); }
                if dump(&d2.storage) != before { return Err(format!("refused migration ({why}) changed storage")); }
            }
            let keep = others(&deps);
            let cfg0 = CONFIG.load(&deps.storage).unwrap();
            migrate(deps.as_mut(), mock_env(), MigrateMsg::V1_0_0ToV1_1_0 {}).map_err(|e| format!("migration 1.0.0->1.1.0 refused: {e}"))?;
            for (key, p) in &olds {
                let got = INFLIGHT_PACKETS.may_load(&deps.storage, *key).map_err(|e| format!("migration left transfer {key} unreadable: {e}"))?;
                match got {
                    Some(g) if g.sequence == p.sequence && g.amount.amount.u128() == p.amount && g.amount.denom == IBC_DENOM && g.status == p.status && g.receiver == a.staker => {}
                    other => return Err(format!("migration turned tracked transfer {key} {p:?} into {other:?} (expected same key, sequence, amount, status; staked-asset denom; staker as receiver)")),
                }
            }
            let nkeys = INFLIGHT_PACKETS.keys(&deps.storage, None, None, cosmwasm_std::Order::Ascending).count();
            if nkeys != olds.len() { return Err(format!("migration changed the number of tracked transfers from {} to {nkeys}", olds.len())); }
            for (key, w) in &oldw {
                match IBC_WAITING_FOR_REPLY.may_load(&deps.storage, *key).map_err(|e| format!("migration left pending transfer {key} unreadable: {e}"))? {
                    Some(g) if g.amount.amount.u128() == w.amount && g.amount.denom == IBC_DENOM && g.receiver == a.staker => {}
                    other => return Err(format!("migration turned pending transfer {key} {w:?} into {other:?}")),
                }
            }
            if others(&deps) != keep || CONFIG.load(&deps.storage).unwrap() != cfg0 { return Err("migration 1.0.0->1.1.0 altered stored data other than the transfer records and the version".into()); }
            let v = cw2::get_contract_version(&deps.storage).unwrap();
            if v.version != "1.1.0" || v.contract != name { return Err(format!("migration recorded version {} of {}, expected 1.1.0", v.version, v.contract)); }
            if migrate(deps.as_mut(), mock_env(), MigrateMsg::V1_0_0ToV1_1_0 {}).is_ok() { return Err("migration accepted a second time (to the same version)".into()); }
        }
        1 => {
            cw2::set_contract_version(&mut deps.storage, name, "0.4.20").unwrap();
            let send = r.next() % 2 == 0;
            let old = v0_4_20::Config {
                native_token_denom: IBC_DENOM.into(), liquid_stake_token_denom: "factory/x/umilkTIA".into(), treasury_address: Addr::unchecked(b32("osmo", 60)),
                monitors: if r.next() % 2 == 0 { None } else { Some(vec![Addr::unchecked(b32("osmo", 61))]) }, validators: vec![Addr::unchecked(b32("celestiavaloper", 62)), Addr::unchecked(b32("celestiavaloper", 63))],
                batch_period: 111, unbonding_period: 222, protocol_fee_config: v0_4_18::ProtocolFeeConfig { dao_treasury_fee: Uint128::new(333) },
                multisig_address_config: v0_4_18::MultisigAddressConfig { staker_address: Addr::unchecked(b32("celestia", 64)), reward_collector_address: Addr::unchecked(b32("celestia", 65)) },
                minimum_liquid_stake_amount: Uint128::new(444), ibc_channel_id: "channel-55".into(), stopped: r.next() % 2 == 0,
                oracle_address: if r.next() % 2 == 0 { None } else { Some(Addr::unchecked(b32("osmo", 66))) }, send_fees_to_treasury: send,
            };
            cw_storage_plus::Item::<v0_4_20::Config>::new("config").save(&mut deps.storage, &old).unwrap();
            let keep = others(&deps);
            let msg = MigrateMsg::V0_4_20ToV1_0_0 { native_account_address_prefix: "celestia".into(), native_validator_address_prefix: "celestiavaloper".into(), native_token_denom: "utia".into(), protocol_account_address_prefix: "osmo".into() };
            let mut d2 = restore(&dump(&deps.storage));
            for v in ["0.4.18", "0.4.21", "0.4.25"] {
                cw2::set_contract_version(&mut d2.storage, name, v).unwrap();
                if migrate(d2.as_mut(), mock_env(), msg.clone()).is_ok() { return Err(format!("migration accepted from version {v} through the 0.4.20->1.0.0 path (the source version must match exactly)")); }
            }
            migrate(deps.as_mut(), mock_env(), msg).map_err(|e| format!("migration 0.4.20->1.0.0 refused: {e}"))?;
            let c = CONFIG.load(&deps.storage).map_err(|e| format!("migration left the configuration unreadable: {e}"))?;
            let ok = c.native_chain_config.staker_address == old.multisig_address_config.staker_address
                && c.native_chain_config.reward_collector_address == old.multisig_address_config.reward_collector_address
                && c.native_chain_config.validators == old.validators && c.native_chain_config.unbonding_period == 222 && c.native_chain_config.token_denom == "utia"
                && c.native_chain_config.account_address_prefix == "celestia" && c.native_chain_config.validator_address_prefix == "celestiavaloper"
                && c.protocol_chain_config.account_address_prefix == "osmo" && c.protocol_chain_config.ibc_channel_id == "channel-55" && c.protocol_chain_config.ibc_token_denom == IBC_DENOM
                && c.protocol_chain_config.minimum_liquid_stake_amount.u128() == 444 && c.protocol_chain_config.oracle_address == old.oracle_address
                && c.protocol_fee_config.dao_treasury_fee.u128() == 333 && c.protocol_fee_config.treasury_address == (if send { Some(old.treasury_address.clone()) } else { None })
                && c.liquid_stake_token_denom == old.liquid_stake_token_denom && c.batch_period == 111 && c.monitors == old.monitors.clone().unwrap_or_default() && c.stopped == old.stopped;
            if !ok { return Err(format!("migration 0.4.20->1.0.0 translated {old:?} into {c:?}")); }
            if others(&deps) != keep { return Err("migration 0.4.20->1.0.0 altered stored data other than the configuration and the version".into()); }
        }
        _ => {
            cw2::set_contract_version(&mut deps.storage, name, "0.4.18").unwrap();
            let old = v0_4_18::Config {
                native_token_denom: IBC_DENOM.into(), liquid_stake_token_denom: "factory/x/umilkTIA".into(), treasury_address: Addr::unchecked(b32("osmo", 60)),
                operators: Some(vec![Addr::unchecked(b32("osmo", 70))]), monitors: Some(vec![Addr::unchecked(b32("osmo", 61))]), validators: vec![Addr::unchecked(b32("celestiavaloper", 62))],
                batch_period: 111, unbonding_period: 222, protocol_fee_config: v0_4_18::ProtocolFeeConfig { dao_treasury_fee: Uint128::new(333) },
                multisig_address_config: v0_4_18::MultisigAddressConfig { staker_address: Addr::unchecked(b32("celestia", 64)), reward_collector_address: Addr::unchecked(b32("celestia", 65)) },
                minimum_liquid_stake_amount: Uint128::new(444), ibc_channel_id: "channel-55".into(), stopped: r.next() % 2 == 0,
                oracle_contract_address: Some(Addr::unchecked(b32("osmo", 71))), oracle_contract_address_v2: Some(Addr::unchecked(b32("osmo", 72))),
                oracle_address: if r.next() % 2 == 0 { None } else { Some(Addr::unchecked(b32("osmo", 73))) },
            };
            cw_storage_plus::Item::<v0_4_18::Config>::new("config").save(&mut deps.storage, &old).unwrap();
            let send = r.next() % 2 == 0;
            for v in ["0.4.19", "0.4.20", "0.4.17"] {
                let mut d2 = restore(&dump(&deps.storage));
                cw2::set_contract_version(&mut d2.storage, name, v).unwrap();
                if migrate(d2.as_mut(), mock_env(), MigrateMsg::V0_4_18ToV0_4_20 { send_fees_to_treasury: send }).is_ok() { return Err(format!("migration accepted from version {v} through the 0.4.18->0.4.20 path (the source version must match exactly)")); }
            }
            migrate(deps.as_mut(), mock_env(), MigrateMsg::V0_4_18ToV0_4_20 { send_fees_to_treasury: send }).map_err(|e| format!("migration 0.4.18->0.4.20 refused: {e}"))?;
            let c = v0_4_20::CONFIG.load(&deps.storage).map_err(|e| format!("migration left the configuration unreadable: {e}"))?;
            let want = v0_4_20::Config { native_token_denom: old.native_token_denom.clone(), liquid_stake_token_denom: old.liquid_stake_token_denom.clone(), treasury_address: old.treasury_address.clone(), monitors: old.monitors.clone(),
                validators: old.validators.clone(), batch_period: 111, unbonding_period: 222, protocol_fee_config: old.protocol_fee_config.clone(), multisig_address_config: old.multisig_address_config.clone(),
                minimum_liquid_stake_amount: old.minimum_liquid_stake_amount, ibc_channel_id: old.ibc_channel_id.clone(), stopped: old.stopped, oracle_address: old.oracle_address.clone(), send_fees_to_treasury: send };
            if c != want { return Err(format!("migration 0.4.18->0.4.20 translated {old:?} into {c:?}")); }
        }
    }
    Ok(())
}

/// what the dispatcher accepts as payment, and edge cases of the batch life cycle (C08 dispatch, C05, C06)
fn fam_funds(r: &mut Rng) -> Result<(), String> {
    let mut s = scenario(r);
    if s.tl < 100 { s.tl = 1_000; s.tn = 1_500; }
    let a = addrs(s.pp, s.np);
    #[allow(non_snake_case, unused_variables)]
    let (ADMIN, USER, USER2, ORACLE, STAKER, COLLECTOR, NATIVE_USER) = (a.admin.as_str(), a.user.as_str(), a.user2.as_str(), a.oracle.as_str(), a.staker.as_str(), a.collector.as_str(), a.native_user.as_str());
    let mut deps = init(&s);
    let lst = CONFIG.load(&deps.storage).unwrap().liquid_stake_token_denom;
    let t0 = mock_env().block.time.seconds();
    let go = |deps: &mut Deps, t: u64, who: &str, funds: &[Coin], m: ExecuteMsg| execute(deps.as_mut(), env_at(t), mock_info(who, funds), m);
    let stake = ExecuteMsg::LiquidStake { mint_to: None, transfer_to_native_chain: None, expected_mint_amount: None };
    let before = dump(&deps.storage);
    // payments that are not exactly one coin of the right denom are refused without effect
    let bad: Vec<(&str, Vec<Coin>, ExecuteMsg)> = vec![
        ("LiquidStake without funds", vec![], stake.clone()),
        ("LiquidStake paid in another denom", coins(5_000, "uosmo"), stake.clone()),
        ("LiquidStake paid in the LST", coins(5_000, &lst), stake.clone()),
        ("LiquidStake paid with two coins", vec![Coin::new(5_000, IBC_DENOM), Coin::new(1, "uosmo")], stake.clone()),
        ("LiquidUnstake without funds", vec![], ExecuteMsg::LiquidUnstake {}),
        ("LiquidUnstake paid in the staked asset", coins(50, IBC_DENOM), ExecuteMsg::LiquidUnstake {}),
        ("LiquidUnstake paid with two coins", vec![Coin::new(5, &lst), Coin::new(1, "uosmo")], ExecuteMsg::LiquidUnstake {}),
    ];
    for (what, funds, m) in bad {
        if go(&mut deps, t0, USER, &funds, m).is_ok() { return Err(format!("{what} was accepted by the dispatcher")); }
        if dump(&deps.storage) != before { return Err(format!("refused {what} changed storage")); }
    }
    // deliveries in the wrong denom are refused
    if go(&mut deps, t0, &hook_p(COLLECTOR, s.pp), &coins(1_000, "uosmo"), ExecuteMsg::ReceiveRewards {}).is_ok() { return Err("ReceiveRewards paid in another denom was accepted by the dispatcher".into()); }
    // an empty pending batch cannot be submitted, even when it is due
    if go(&mut deps, t0 + 86_400 + 5, USER2, &[], ExecuteMsg::SubmitBatch {}).is_ok() { return Err("SubmitBatch succeeded one second before or after on an EMPTY pending batch (must be non-empty)".into()); }
    let q = (s.tl / 20).max(1);
    go(&mut deps, t0, USER, &coins(q, &lst), ExecuteMsg::LiquidUnstake {}).map_err(|e| format!("set-up: {e}"))?;
    // nothing can be withdrawn from, or delivered to, a batch that is still pending
    if go(&mut deps, t0 + 10, USER, &[], ExecuteMsg::Withdraw { batch_id: 1 }).is_ok() { return Err("Withdraw from a batch that has not received its tokens succeeded (pending batch)".into()); }
    if go(&mut deps, t0 + 3_000_000, &hook_p(STAKER, s.pp), &coins(1_000, IBC_DENOM), ExecuteMsg::ReceiveUnstakedTokens { batch_id: 1 }).is_ok() { return Err("ReceiveUnstakedTokens accepted before the unbonding period of a batch that was never submitted".into()); }
    go(&mut deps, t0 + 86_400, USER2, &[], ExecuteMsg::SubmitBatch {}).map_err(|e| format!("set-up: {e}"))?;
    let unb = t0 + 86_400 + 1_209_600;
    if go(&mut deps, unb, &hook_p(STAKER, s.pp), &coins(1_000, "uosmo"), ExecuteMsg::ReceiveUnstakedTokens { batch_id: 1 }).is_ok() { return Err("ReceiveUnstakedTokens paid in another denom was accepted by the dispatcher".into()); }
    if go(&mut deps, unb, &hook_p(STAKER, s.pp), &coins(1_000, IBC_DENOM), ExecuteMsg::ReceiveUnstakedTokens { batch_id: 7 }).is_ok() { return Err("ReceiveUnstakedTokens accepted before the unbonding period of a batch that does not exist".into()); }
    go(&mut deps, unb, &hook_p(STAKER, s.pp), &coins(1_000, IBC_DENOM), ExecuteMsg::ReceiveUnstakedTokens { batch_id: 1 }).map_err(|e| format!("set-up: {e}"))?;
    // a batch moves Submitted -> Received once
    let b1 = BATCHES.load(&deps.storage, 1).unwrap();
    if go(&mut deps, unb + 1, &hook_p(STAKER, s.pp), &coins(999, IBC_DENOM), ExecuteMsg::ReceiveUnstakedTokens { batch_id: 1 }).is_ok() {
        return Err(format!("a second ReceiveUnstakedTokens for a batch that is already Received was accepted (recorded {:?} -> {:?}): expected amount changed / status moved backwards", b1.received_native_unstaked, BATCHES.load(&deps.storage, 1).unwrap().received_native_unstaked));
    }
    Ok(())
}

/// a fresh contract: halted, empty, first batch due one period later, sender is admin, create-denom emitted (C10, C06, C01, C12, C19, C14)
fn fam_instantiate(r: &mut Rng) -> Result<(), String> {
    use osmosis_std::types::osmosis::tokenfactory::v1beta1::MsgCreateDenom;
    let s = scenario(r);
    let a = addrs(s.pp, s.np);
    let period = r.pick(&[1u64, 3_600, 86_400, 1_000_000]);
    let t0 = 1_600_000_000 + r.next() % 100_000;
    let mk = |denom: &str, channel: &str, staker: String, mons: Vec<String>| InstantiateMsg {
        native_chain_config: UnsafeNativeChainConfig { token_denom: "utia".into(), account_address_prefix: s.np.into(), validator_address_prefix: format!("{}valoper", s.np),
            validators: vec![a.val.clone()], unbonding_period: 1_209_600, staker_address: staker, reward_collector_address: a.collector.clone() },
        protocol_chain_config: UnsafeProtocolChainConfig { account_address_prefix: s.pp.into(), ibc_token_denom: IBC_DENOM.into(), ibc_channel_id: channel.into(),
            oracle_address: if s.oracle { Some(a.oracle.clone()) } else { None }, minimum_liquid_stake_amount: Uint128::new(s.min) },
        protocol_fee_config: UnsafeProtocolFeeConfig { dao_treasury_fee: Uint128::new(s.fee_rate), treasury_address: if s.treasury { Some(a.user2.clone()) } else { None } },
        liquid_stake_token_denom: denom.into(), batch_period: period, monitors: mons,
    };
    // malformed set-ups are refused
    let bads: Vec<(&str, InstantiateMsg)> = vec![
        ("a sub-denom with a digit", mk("umilk1", CHANNEL, a.staker.clone(), vec![])),
        ("a sub-denom with surrounding blanks", mk(" umilkTIA", CHANNEL, a.staker.clone(), vec![])),
        ("a channel without number", mk("umilkTIA", "channel-", a.staker.clone(), vec![])),
        ("a staker under a foreign prefix", mk("umilkTIA", CHANNEL, b32("cosmos", 5), vec![])),
        ("a monitor listed twice", mk("umilkTIA", CHANNEL, a.staker.clone(), vec![a.user2.clone(), a.user2.clone()])),
        ("a monitor under a foreign prefix", mk("umilkTIA", CHANNEL, a.staker.clone(), vec![b32("cosmos", 9)])),
    ];
    let (what, m) = &bads[(r.next() % bads.len() as u64) as usize];
    let mut d0 = mock_dependencies();
    if instantiate(d0.as_mut(), env_at(t0), mock_info(&a.admin, &[]), m.clone()).is_ok() { return Err(format!("instantiate with {what} was accepted by validation")); }
    let mut deps = mock_dependencies();
    let resp = instantiate(deps.as_mut(), env_at(t0), mock_info(&a.admin, &[]), mk("umilkTIA", CHANNEL, a.staker.clone(), vec![a.user2.clone()])).map_err(|e| format!("instantiate with a well-formed configuration refused: {e}"))?;
    let c = CONFIG.load(&deps.storage).unwrap();
    if !c.stopped { return Err("a newly instantiated contract is not halted".into()); }
    let contract = mock_env().contract.address.to_string();
    if c.liquid_stake_token_denom != format!("factory/{contract}/umilkTIA") { return Err(format!("instantiate configured the LST denom {:?}", c.liquid_stake_token_denom)); }
    let st = STATE.load(&deps.storage).unwrap();
    if !(st.total_native_token.is_zero() && st.total_liquid_stake_token.is_zero() && st.total_fees.is_zero() && st.total_reward_amount.is_zero()) { return Err(format!("a newly instantiated contract has non-zero totals: staked total {} LST total {}", st.total_native_token, st.total_liquid_stake_token)); }
    let p = PENDING_BATCH_ID.load(&deps.storage).unwrap();
    let b = BATCHES.load(&deps.storage, p).unwrap();
    if p != 1 || b.next_batch_action_time != Some(t0 + period) || !b.batch_total_liquid_stake.is_zero() { return Err(format!("new pending batch {p} due {:?} at instantiation, expected id 1 due {}", b.next_batch_action_time, t0 + period)); }
    let created: Vec<(String, String)> = resp.messages.iter().filter_map(|m| match &m.msg {
        CosmosMsg::Stargate { type_url, value } if *type_url == format!("{TF}MsgCreateDenom") => {
            if cfg!(feature = "miniwasm") { let d = mw::MsgCreateDenom::decode(value.as_slice()).unwrap(); if d.encode_to_vec() != value.as_slice() { return None; } Some((d.sender, d.subdenom)) }
            else { let d = MsgCreateDenom::decode(value.as_slice()).unwrap(); Some((d.sender, d.subdenom)) } }
        _ => None }).collect();
    if created != vec![(contract.clone(), "umilkTIA".to_string())] { return Err(format!("instantiate emitted create-denom messages {created:?}, expected one by the contract for sub-denom umilkTIA (mint messages would name a denom that was never created)")); }
    // the instantiating account is the admin; nobody else is
    if execute(deps.as_mut(), env_at(t0), mock_info(&a.user, &[]), ExecuteMsg::CircuitBreaker {}).is_ok() { return Err("CircuitBreaker succeeded for an ordinary user on a fresh contract".into()); }
    if execute(deps.as_mut(), env_at(t0), mock_info(&a.user, &coins(1_000_000, IBC_DENOM)), ExecuteMsg::LiquidStake { mint_to: None, transfer_to_native_chain: None, expected_mint_amount: None }).is_ok() { return Err("LiquidStake succeeded while the contract is halted (fresh contract, never resumed)".into()); }
    execute(deps.as_mut(), env_at(t0), mock_info(&a.admin, &[]), ExecuteMsg::ResumeContract { total_native_token: Uint128::zero(), total_liquid_stake_token: Uint128::zero(), total_reward_amount: Uint128::zero() }).map_err(|e| format!("ResumeContract refused for the admin (the instantiating account): {e}"))?;
    Ok(())
}

/// type URLs of the bindings, Any packing, and byte identity with the independently generated osmosis-std types (C20)
fn fam_proto(r: &mut Rng) -> Result<(), String> {
    use initia_proto::traits::{MessageExt, TypeUrl};
    use initia_proto::{cosmos, ibc, initia};
    macro_rules! url { ($t:ty, $u:expr) => { if <$t as TypeUrl>::TYPE_URL != $u { return Err(format!("type URL registered for {} is {:?}, the fully-qualified protobuf name gives {:?}", stringify!($t), <$t as TypeUrl>::TYPE_URL, $u)); } }; }
    url!(cosmos::bank::v1beta1::MsgSend, "/cosmos.bank.v1beta1.MsgSend");
    url!(cosmos::bank::v1beta1::MsgMultiSend, "/cosmos.bank.v1beta1.MsgMultiSend");
    url!(cosmos::distribution::v1beta1::MsgSetWithdrawAddress, "/cosmos.distribution.v1beta1.MsgSetWithdrawAddress");
    url!(cosmos::distribution::v1beta1::MsgWithdrawDelegatorReward, "/cosmos.distribution.v1beta1.MsgWithdrawDelegatorReward");
    url!(cosmos::distribution::v1beta1::MsgWithdrawValidatorCommission, "/cosmos.distribution.v1beta1.MsgWithdrawValidatorCommission");
    url!(cosmos::distribution::v1beta1::MsgFundCommunityPool, "/cosmos.distribution.v1beta1.MsgFundCommunityPool");
    url!(cosmos::feegrant::v1beta1::MsgGrantAllowance, "/cosmos.feegrant.v1beta1.MsgGrantAllowance");
    url!(cosmos::feegrant::v1beta1::MsgRevokeAllowance, "/cosmos.feegrant.v1beta1.MsgRevokeAllowance");
    url!(cosmos::feegrant::v1beta1::BasicAllowance, "/cosmos.feegrant.v1beta1.BasicAllowance");
    url!(cosmos::feegrant::v1beta1::PeriodicAllowance, "/cosmos.feegrant.v1beta1.PeriodicAllowance");
    url!(cosmos::feegrant::v1beta1::AllowedMsgAllowance, "/cosmos.feegrant.v1beta1.AllowedMsgAllowance");
    url!(cosmos::staking::v1beta1::MsgDelegate, "/cosmos.staking.v1beta1.MsgDelegate");
    url!(cosmos::staking::v1beta1::MsgUndelegate, "/cosmos.staking.v1beta1.MsgUndelegate");
    url!(cosmos::staking::v1beta1::MsgBeginRedelegate, "/cosmos.staking.v1beta1.MsgBeginRedelegate");
    url!(cosmos::base::abci::v1beta1::MsgData, "/cosmos.base.abci.v1beta1.MsgData");
    url!(cosmos::base::abci::v1beta1::TxMsgData, "/cosmos.base.abci.v1beta1.TxMsgData");
    url!(cosmos::auth::v1beta1::BaseAccount, "/cosmos.auth.v1beta1.BaseAccount");
    url!(cosmos::auth::v1beta1::ModuleAccount, "/cosmos.auth.v1beta1.ModuleAccount");
    url!(ibc::applications::transfer::v1::MsgTransfer, "/ibc.applications.transfer.v1.MsgTransfer");
    url!(initia::mstaking::v1::MsgCreateValidator, "/initia.mstaking.v1.MsgCreateValidator");
    url!(initia::mstaking::v1::MsgEditValidator, "/initia.mstaking.v1.MsgEditValidator");
    url!(initia::mstaking::v1::MsgDelegate, "/initia.mstaking.v1.MsgDelegate");
    url!(initia::mstaking::v1::MsgBeginRedelegate, "/initia.mstaking.v1.MsgBeginRedelegate");
    url!(initia::mstaking::v1::MsgUndelegate, "/initia.mstaking.v1.MsgUndelegate");
    url!(initia::r#move::v1::MsgPublish, "/initia.move.v1.MsgPublish");
    url!(initia::r#move::v1::MsgExecute, "/initia.move.v1.MsgExecute");
    url!(initia::r#move::v1::MsgScript, "/initia.move.v1.MsgScript");
    // Any: round trip, and a mismatched type URL is rejected
    let amt = r.amount().to_string();
    let m = cosmos::bank::v1beta1::MsgSend { from_address: b32("init", 1), to_address: b32("init", 2),
        amount: vec![cosmos::base::v1beta1::Coin { denom: "uinit".into(), amount: amt.clone() }] };
    let any = m.to_any().map_err(|e| format!("Any packing of MsgSend failed: {e}"))?;
    if any.type_url != "/cosmos.bank.v1beta1.MsgSend" { return Err(format!("Any packing used type URL {:?}", any.type_url)); }
    let back = cosmos::bank::v1beta1::MsgSend::from_any(&any).map_err(|e| format!("Any unpacking of a packed MsgSend failed: {e}"))?;
    if back != m { return Err("Any packing and unpacking of MsgSend is not the identity".into()); }
    if cosmos::bank::v1beta1::MsgMultiSend::from_any(&any).is_ok() { return Err("Any unpacking accepted a mismatched type URL (MsgSend unpacked as MsgMultiSend)".into()); }
    if cosmos::staking::v1beta1::MsgDelegate::from_any(&any).is_ok() { return Err("Any unpacking accepted a mismatched type URL (MsgSend unpacked as MsgDelegate)".into()); }
    let mut hosted = any.clone();
    hosted.type_url = format!("type.googleapis.com{}", any.type_url);
    if cosmos::bank::v1beta1::MsgSend::from_any(&hosted).is_ok() { return Err(format!("Any unpacking accepted a mismatched type URL ({:?} is not the registered {:?})", hosted.type_url, any.type_url)); }
    // byte identity with the independently generated bindings for shared messages
    let o = osmosis_std::types::cosmos::bank::v1beta1::MsgSend { from_address: m.from_address.clone(), to_address: m.to_address.clone(),
        amount: vec![osmosis_std::types::cosmos::base::v1beta1::Coin { denom: "uinit".into(), amount: amt.clone() }] };
    if m.encode_to_vec() != o.encode_to_vec() { return Err("wire bytes of cosmos.bank.v1beta1.MsgSend differ from the independently generated binding".into()); }
    let (gw, gu, h) = ((r.next() % 1_000_000) as i64 + 1, (r.next() % 1_000_000) as i64 + 2_000_000, (r.next() % 100_000) as i64);
    let t = cosmos::base::abci::v1beta1::TxResponse { height: h, txhash: "AB".into(), gas_wanted: gw, gas_used: gu, ..Default::default() };
    let ot = osmosis_std::types::cosmos::base::abci::v1beta1::TxResponse { height: h, txhash: "AB".into(), gas_wanted: gw, gas_used: gu, ..Default::default() };
    if t.encode_to_vec() != ot.encode_to_vec() { return Err("wire bytes of cosmos.base.abci.v1beta1.TxResponse differ from the independently generated binding".into()); }
    let ids: Vec<u64> = (0..(1 + r.next() % 4)).map(|_| r.next() % 1000).collect();
    let v = cosmos::staking::v1beta1::Validator { operator_address: b32("initvaloper", 4), jailed: true, tokens: "12345".into(), unbonding_height: h, unbonding_on_hold_ref_count: 3, unbonding_ids: ids.clone(), ..Default::default() };
    let ov = osmosis_std::types::cosmos::staking::v1beta1::Validator { operator_address: b32("initvaloper", 4), jailed: true, tokens: "12345".into(), unbonding_height: h, unbonding_on_hold_ref_count: 3, unbonding_ids: ids, ..Default::default() };
    if v.encode_to_vec() != ov.encode_to_vec() { return Err("wire bytes of cosmos.staking.v1beta1.Validator differ from the independently generated binding".into()); }
    let d = cosmos::staking::v1beta1::MsgDelegate { delegator_address: b32("init", 3), validator_address: b32("initvaloper", 4), amount: Some(cosmos::base::v1beta1::Coin { denom: "uinit".into(), amount: amt.clone() }) };
    let od = osmosis_std::types::cosmos::staking::v1beta1::MsgDelegate { delegator_address: d.delegator_address.clone(), validator_address: d.validator_address.clone(), amount: Some(osmosis_std::types::cosmos::base::v1beta1::Coin { denom: "uinit".into(), amount: amt }) };
    if d.encode_to_vec() != od.encode_to_vec() { return Err("wire bytes of cosmos.staking.v1beta1.MsgDelegate differ from the independently generated binding".into()); }
    Ok(())
}

fn run_family(f: &str, r: &mut Rng) -> Result<(), String> {
    match f {
        "stake" => fam_stake(r),
        "rewards" => fam_rewards(r),
        "batch" => fam_batch(r),
        "auth" => fam_auth(r),
        "ownership" => fam_ownership(r),
        "fee_withdraw" => fam_fee_withdraw(r),
        "validation" => fam_validation(r),
        "recover" => fam_recover(r),
        "halt" => fam_halt(r),
        "ibc" => fam_ibc(r),
        "funds" => fam_funds(r),
        "proto" => fam_proto(r),
        "instantiate" => fam_instantiate(r),
        "migrate" => fam_migrate(r),
        "queries" => fam_queries(r),
        "config" => fam_config(r),
        "treasury" => fam_treasury(r),
        "treasury_ownership" => fam_treasury_ownership(r),
        _ => Ok(()),
    }
}

const FAMILIES: [&str; 18] = ["queries", "ibc", "migrate", "funds", "instantiate", "proto", "stake", "rewards", "batch", "auth", "ownership", "fee_withdraw", "validation", "recover", "treasury", "treasury_ownership", "halt", "config"];

thread_local! { static PANIC_AT: std::cell::RefCell<String> = std::cell::RefCell::new(String::new()); }

fn one(f: &str, seed: u64, case: u64) -> Result<(), String> {
    let mut r = Rng(seed.wrapping_mul(0x9E3779B97F4A7C15) ^ (case + 1).wrapping_mul(0xD1B54A32D192ED03) | 1);
    let f2 = f.to_string();
    match catch_unwind(AssertUnwindSafe(move || run_family(&f2, &mut r))) {
        Ok(x) => x,
        Err(p) => {
            let msg = p.downcast_ref::<String>().cloned().or_else(|| p.downcast_ref::<&str>().map(|s| s.to_string())).unwrap_or_default();
            let at = PANIC_AT.with(|p| p.borrow().clone());
            if at.starts_with("src/main.rs") {
                // a panic of the driver itself (an unwrap on a state the changed code did not produce) is not a witness
                Err(format!("driver stopped at {at}: {msg}"))
            } else {
                Err(format!("the real code PANICKED at {at}: {msg}"))
            }
        }
    }
}

fn main() {
    std::panic::set_hook(Box::new(|info| {
        let loc = info.location().map(|l| format!("{}:{}", l.file(), l.line())).unwrap_or_default();
        PANIC_AT.with(|p| *p.borrow_mut() = loc);
    }));
    let a: Vec<String> = std::env::args().collect();
    if a.len() < 5 {
        eprintln!("usage: vreplay search <family|all> <seed> <cases> [property] | vreplay rerun <family> <seed> <case>");
        std::process::exit(2);
    }
    let seed: u64 = a[3].parse().unwrap();
    let n: u64 = a[4].parse().unwrap();
    if a[1] == "rerun" {
        match one(&a[2], seed, n) {
            Ok(()) => { println!("case no longer fails"); std::process::exit(0) }
            Err(e) => { println!("STILL FAILS: {e}"); std::process::exit(1) }
        }
    }
    let want = a.get(5).cloned().unwrap_or_default();
    let fams: Vec<&str> = if a[2] == "all" { FAMILIES.to_vec() } else { a[2].split(',').collect() };
    for f in fams {
        for case in 0..n {
            if let Err(e) = one(f, seed, case) {
                let mut props = tags_for(&e);
                if e.contains("PANICKED") {
                    // a panic inside a family's flow also breaks what that flow's property promises about the operation
                    let extra: &[&'static str] = match f { "batch" | "funds" => &["C05", "C06"], "stake" => &["C04", "C03"], "rewards" | "fee_withdraw" => &["C11"], "recover" | "ibc" => &["C07"],
                        "treasury" => &["C13"], "migrate" => &["C18"], "queries" => &["C17"], "validation" | "config" | "instantiate" => &["C14"], "halt" => &["C10"],
                        "ownership" | "treasury_ownership" => &["C12"], "auth" => &["C08"], "proto" => &["C20"], _ => &[] };
                    for x in extra { if !props.contains(x) { props.push(x); } }
                }
                // the two builds must behave identically: a mismatch that only the miniwasm build shows is C19's as well
                if cfg!(feature = "miniwasm") && !props.is_empty() && !props.contains(&"C19") { props.push("C19"); }
                if props.is_empty() { eprintln!("driver set-up failure (ignored): {f} case {case}: {e}"); continue; }
                if !want.is_empty() && !props.iter().any(|p| want == *p) { continue; }
                println!("{}", serde_json::json!({"family": f, "seed": seed, "case": case, "failure": e, "props": props}));
                return;
            }
        }
    }
    println!("null");
}
