"""Replay files.  Verus gives no counterexample; a violation's replay file names the failed
obligation and carries the verifier's output.  Where an executable mirror of the clause
exists (vf/mirrors), a boundary+random search on the real crates adds a concrete witness."""
import json
import os
import re
import subprocess

from .assemble import VERIF


def safe(s):
    return re.sub(r'[^A-Za-z0-9_.-]+', '_', s)


def make_replay(pid, v, seed):
    d = os.environ.get('VERIF_REPLAYS', os.path.join(VERIF, 'replays'))
    os.makedirs(d, exist_ok=True)
    path = os.path.join(d, f'{pid}-{safe(v["label"])}.json')
    rec = {'property': pid, 'obligation': v['obligation'], 'label': v['label'], 'function': v['function'],
           'world': v['world'], 'file': v['file'], 'src_span': v['src_span'],
           'verifier_output': v['verus'], 'witness': None, 'seed': seed}
    found = False
    try:
        if os.environ.get('VERIF_NO_WITNESS_SEARCH'):
            raise RuntimeError('witness search disabled (VERIF_NO_WITNESS_SEARCH)')
        from .mirrors import search
        w = search(pid, v, seed)
        if w is not None:
            rec['witness'] = w
            found = True
    except Exception as e:  # a missing or failing mirror never changes the verdict
        rec['mirror_error'] = repr(e)
    if not found:
        rec['note'] = 'no-failing-input-found'
    json.dump(rec, open(path, 'w'), indent=1)
    return path, found


def bounded_stand_in(pid, inconclusive, seed):
    """The verifier could not decide the property on this tree (a function left the verified subset).
    Bounded stand-in, never counted as proof: the witness search on the real crates.  Returns
    (path, witness) when a concrete failing input contradicting a clause of `pid` exists."""
    try:
        from .mirrors import search, CASES, FAMILIES
        w = search(pid, None, seed)
    except Exception as e:
        return None, None, f'bounded stand-in unavailable: {e!r}'[:400]
    if w is None:
        return None, None, (f'bounded stand-in (vreplay, families {",".join(FAMILIES.get(pid, []))}, {CASES} cases each, '
                            f'seed {seed or 1}) found no failing input')
    d = os.environ.get('VERIF_REPLAYS', os.path.join(VERIF, 'replays'))
    os.makedirs(d, exist_ok=True)
    path = os.path.join(d, f'{pid}-bounded-{safe(w["family"])}.json')
    rec = {'property': pid, 'obligation': f'bounded:{w["family"]}', 'label': f'bounded:{w["family"]}', 'function': None,
           'world': None, 'file': None, 'src_span': None, 'verifier_output': ['verifier undecided: ' + m for m in inconclusive],
           'witness': w, 'seed': seed, 'level': 'bounded'}
    json.dump(rec, open(path, 'w'), indent=1)
    return path, w, None


def run_replay(path):
    rec = json.load(open(path))
    print(json.dumps({k: rec.get(k) for k in ('property', 'obligation', 'function', 'file')}, indent=1))
    for t in rec.get('verifier_output', []):
        print(t)
    if rec.get('witness'):
        from .mirrors import rerun
        return rerun(rec)
    print('no concrete witness recorded (no-failing-input-found); re-run ./check', rec['property'])
    return 1
