"""Runs Verus on an assembled world and maps its per-function results and diagnostics back to
functions, labelled obligations and properties."""
import json
import os
import re
import subprocess
import time
from concurrent.futures import ThreadPoolExecutor

from .assemble import assemble, Inconclusive, VERIF

VERUS = os.environ.get('VERUS', 'verus')

VERIFICATION_MSGS = (
    'postcondition not satisfied', 'precondition not satisfied', 'assertion failed',
    'possible arithmetic underflow/overflow', 'possible division by zero', 'invariant not satisfied',
    'possible bit shift underflow/overflow', 'loop invariant', 'decreases not satisfied',
    'unable to prove', 'recommendation not met', 'could not prove termination',
    'possible index out of bounds', 'cannot show', 'failed',
)
RLIMIT_MSGS = ('Resource limit (rlimit) exceeded', 'rlimit', 'timed out')


def run_verus(path, threads=8, multiple_errors=40, extra=()):
    t0 = time.time()
    cmd = [VERUS, os.path.basename(path), '--output-json', '--time-expanded', '--error-format=json',
           '--multiple-errors', str(multiple_errors), '--num-threads', str(threads)] + list(extra)
    p = subprocess.run(cmd, cwd=os.path.dirname(path), capture_output=True, text=True)
    wall = time.time() - t0
    try:
        js = json.loads(p.stdout)
    except Exception:
        js = None
    diags = []
    for line in p.stderr.split('\n'):
        line = line.strip()
        if line.startswith('{'):
            try:
                diags.append(json.loads(line))
            except Exception:
                pass
    return {'cmd': ' '.join(cmd), 'exit': p.returncode, 'json': js, 'diags': diags, 'wall_s': wall,
            'stderr_tail': p.stderr[-4000:] if js is None else ''}


def _primary(d):
    for s in d.get('spans', []):
        if s.get('is_primary'):
            return s
    return d['spans'][0] if d.get('spans') else None


def classify(res, fns, unit_name='unit'):
    """Split diagnostics into verification failures (mapped to functions/labels) and
    everything else (compile errors etc.).  Returns dict."""
    js = res['json']
    out = {'compile_errors': [], 'failures': [], 'rlimit': [], 'fn_status': {}, 'times': {}}
    if js is None:
        out['compile_errors'].append('verus produced no JSON: ' + res['stderr_tail'][-1500:])
        return out
    vr = js.get('verification-results', {})
    for d in res['diags']:
        if d.get('level') != 'error':
            continue
        msg = d.get('message', '')
        if msg.startswith('aborting due to'):
            continue
        pr = _primary(d)
        is_verif = any(m in msg for m in VERIFICATION_MSGS) and d.get('code') is None
        if any(m in msg for m in RLIMIT_MSGS):
            out['rlimit'].append({'message': msg, 'span': pr and [pr['byte_start'], pr['byte_end']],
                                  'rendered': d.get('rendered', '')})
            continue
        if not is_verif or pr is None:
            out['compile_errors'].append(d.get('rendered') or msg)
            continue
        spans = [(s['byte_start'], s['byte_end'], s.get('is_primary'), s.get('label')) for s in d['spans']]
        out['failures'].append({'message': msg, 'spans': spans, 'rendered': d.get('rendered', ''),
                                'line': pr.get('line_start')})
    if vr.get('encountered-vir-error') or (vr.get('encountered-error') and not out['failures'] and not out['rlimit']):
        if not out['compile_errors']:
            out['compile_errors'].append('verus reported an error without diagnostics')
    # per-function status from the SMT breakdown
    smt = js.get('times-ms', {}).get('smt', {})
    for mod in smt.get('smt-run-module-times', []):
        for fb in mod.get('function-breakdown', []):
            out['times'][fb['function']] = {'success': fb.get('success'), 'time_micros': fb.get('time-micros'),
                                            'rlimit': fb.get('rlimit')}
    # attribute failures
    for f in out['failures']:
        f['fn'] = None
        f['label'] = None
        f['where'] = None
        # the function whose out_span contains the "body" span (or any span)
        cand = None
        for fn in fns:
            s0, s1 = fn['out_span']
            for (a, b, prim, lab) in f['spans']:
                if s0 <= a < s1:
                    # prefer the function containing the non-contract span (the use site)
                    inside_body = fn['body_span'][0] <= a < fn['body_span'][1]
                    if cand is None or inside_body:
                        cand = fn
        f['fn_obj'] = cand
        if cand is None:
            continue
        f['fn'] = f'{cand["mod"]}::{cand["name"]}' + ('' if cand['variant'] in ('main',) else f'#{cand["variant"]}' + (f':{cand["probe"]}' if cand.get('probe') else ''))
        lab = None
        labs = []
        if 'postcondition' in f['message'] and 'closure' not in f['message']:
            for (a, b, prim, _) in f['spans']:
                for L in cand['labels']:
                    if L['span'][0] <= a < L['span'][1]:
                        lab = L['label']
                        labs.append(L['label'])
            f['where'] = 'ensures'
        else:
            for (a, b, prim, _) in f['spans']:
                for L in cand.get('inner_labels', []):
                    if L['span'][0] <= a < L['span'][1]:
                        lab = L['label']
                        if L['label'] not in labs:
                            labs.append(L['label'])
            f['where'] = 'body'
        f['label'] = lab
        f['labels'] = labs or ([lab] if lab else [])
        # located in ghost text the contract inserted (hint / invariant)?
        prim = next(((a, b) for (a, b, p_, _) in f['spans'] if p_), f['spans'][0][:2] if f['spans'] else None)
        gs = cand.get('ghost_spans', [])
        f['ghost'] = bool(prim) and any(g[0] <= prim[0] < g[1] for g in gs)
        if not f['ghost'] and 'invariant' in f['message']:
            # the primary span of an invariant failure is the loop exit / continue; the invariant itself is ghost text
            f['ghost'] = any(g[0] <= a < g[1] for (a, b, p_, _) in f['spans'] for g in gs)
    return out


def match_fn_time(times, fn, unit='unit'):
    parts = fn['name'].split('::')
    parts[-1] = fn.get('out_name', parts[-1])
    if not fn['name'].startswith('<'):
        # `Admin<'a>::set` -> Verus names it `Admin::set`
        parts = [re.sub(r'<.*>$', '', x) for x in parts]
    want = f'{unit}::{fn["mod"]}::' + '::'.join(parts)
    if want in times:
        return times[want]
    # trait impl methods `<X as Trait<..>>::m`: Verus names them `<mod>::X::m` for a local self type X and
    # `<mod>::impl&%N::m` for a foreign one
    mt = re.match(r'^<\s*([\w:]+)[^>]*?\s+as\s+.*>::(\w+)$', fn['name'])
    if mt:
        cand = f'{unit}::{fn["mod"]}::{mt.group(1).split("::")[-1]}::{mt.group(2)}'
        if cand in times:
            return times[cand]
        anon = [v for k, v in times.items() if k.startswith(f'{unit}::{fn["mod"]}::impl&%') and k.split('::')[-1] == mt.group(2)]
        if len(anon) == 1:
            return anon[0]
    # trait impl methods and inline modules: match by last segment
    last = want.split('::')[-1]
    hits = [v for k, v in times.items() if k.split('::')[-1] == last and fn['mod'].split('::')[0] in k]
    if len(hits) == 1:
        return hits[0]
    return None


def _compile_error_fns(res, fns):
    """functions (main variant, with bodies) that contain the primary span of a compile error;
    None when some error lies outside every extracted function body"""
    hit = set()
    for d in res['diags']:
        if d.get('level') != 'error' or d.get('message', '').startswith('aborting due to'):
            continue
        msg = d.get('message', '')
        if any(m in msg for m in VERIFICATION_MSGS) and d.get('code') is None:
            continue
        if any(m in msg for m in RLIMIT_MSGS):
            continue
        pr = _primary(d)
        if pr is None:
            return None
        owner = None
        for fn in fns:
            if fn['external_body']:
                continue
            if fn['out_span'][0] <= pr['byte_start'] < fn['out_span'][1]:
                owner = fn
        if owner is None:
            return None
        hit.add(f'{owner["mod"]}::{owner["name"]}')
    return hit


def run_world(world, features=(), threads=8, verus_extra=()):
    force = set()
    for attempt in range(3):
        outdir, meta = assemble(world, features, force_stub=force)
        with ThreadPoolExecutor(2) as ex:
            f_main = ex.submit(run_verus, os.path.join(outdir, 'unit.rs'), threads, 40, verus_extra)
            f_reach = ex.submit(run_verus, os.path.join(outdir, 'unit_reach.rs'), threads, 2, verus_extra)
            main = f_main.result()
            reach = f_reach.result()
        cm = classify(main, meta['fns'])
        cr = classify(reach, meta['reach_fns'])
        if cm['compile_errors'] and main['json'] is not None:
            # isolate: a function whose (changed) body no longer type-checks in the verified subset is
            # replaced by its assumed contract, and everything that does not depend on it is still decided
            bad = _compile_error_fns(main, meta['fns'])
            if bad and not bad <= force:
                force |= bad
                continue
        break
    return {'outdir': outdir, 'meta': meta, 'main': main, 'reach': reach, 'cm': cm, 'cr': cr}
