"""Writes /verif/MANIFEST.json from the table below (single source of truth)."""
import json
import os

VERIF = os.path.dirname(os.path.dirname(os.path.abspath(__file__)))

TECH = 'Verus contracts (requires/ensures/invariants) on functions re-extracted verbatim from /repo each run; modular SMT proof for all inputs'
NOTE = ('Trusted: hand-written contracts of dependency crates in /verif/shim (listed per run in evidence.coverage.trusted_base) - except those '
        'verified on the dependency\'s own registry source against the same contract text in worlds deps_cw / deps_math / deps_storage '
        '(DESIGN.md 11.12; listed per run in evidence.coverage.dependency_contracts_verified), '
        'the environment contract of DESIGN.md section 4, structural derive(Clone/PartialEq), String/Vec extensionality. '
        'The abstract store gives every storage handle its own component: that the namespace literals are pairwise distinct is a generated obligation (DESIGN.md 11.13). '
        'Extraction rewrites R1-R10 / annotations A1-A4 (DESIGN.md 2.2 and 11.2, counted per run in evidence) are the only differences from the compiled text.')

CLAIMED = {
    # id: (text, design_ref, extra note)
}
NOT_APPLICABLE = {
    # id: reason
}


def build():
    props = [json.loads(l) for l in open(os.path.join(VERIF, 'properties.jsonl'))]
    checks = []
    na = []
    for p in props:
        pid = p['id']
        if pid in CLAIMED:
            text, ref, extra = CLAIMED[pid]
            checks.append({
                'property_id': pid,
                'quick_cmd': f'./check {pid} --tier quick',
                'thorough_cmd': f'./check {pid} --tier thorough',
                'evidence_file': f'/verif/evidence/{pid}.json',
                'replay_cmd_template': './check replay {path}',
                'engine': 'verus-contracts',
                'level_claimed': {'category': 'proof', 'text': text, 'design_ref': ref},
                'level_note': NOTE + (' ' + extra if extra else ''),
                'technique': TECH,
            })
        else:
            na.append({'property_id': pid, 'reason': NOT_APPLICABLE.get(pid, 'check not built yet in this round (work in progress); no claim is made')})
    m = {
        'version': 1,
        'setup_cmd': './setup.sh',
        'hooks': {'guard': 'none', 'enable': 'no hooks: nothing under /repo is instrumented; checks read the working tree',
                  'baseline_off_cmd': 'cd /repo && cargo test --workspace --no-fail-fast --offline',
                  'source_commits': [], 'add_only': True},
        'engines': [{'name': 'verus-contracts', 'path': '/verif/vf', 'serves_properties': sorted(CLAIMED),
                     'kind_free_text': 'syn-based extractor (tools/vx) + contract injection (vf/assemble.py) + Verus 0.2026.09.13 + vacuity twins + known-findings carve-outs; witness search on the real crates (replay/, vf/mirrors.py) for concrete failing inputs'}],
        'checks': checks,
        'not_applicable': na,
        'notes': 'See DESIGN.md (as built: section 11). exit 2 from a check means the verifier could not decide on this tree (lost anchor / construct outside the verified subset / rlimit) and the bounded witness search on the real code found nothing - never a violation, never a pass; it cannot occur on the unchanged tree. A VIOLATION line with obligation=bounded:<family> means: verifier undecided, and a concrete failing input of the real code was found (bounded stand-in, not proof). A VIOLATION line ending no-failing-input-found means: a proof obligation failed and no concrete input was found.',
    }
    json.dump(m, open(os.path.join(VERIF, 'MANIFEST.json'), 'w'), indent=1)
    return m


