"""Parser for the .vc contract files.

Format (line oriented; `#` at column 0 starts a comment line outside text blocks):

    == fn <module::path> <name> [opt ...]       contract for a function (name may be Type::method)
    ret: r                                       name given to the return value (A1)
    requires:                                    text block, inserted verbatim
        ...
    ensures:                                     text block; `// [Cxx.label]` lines open obligations
        ...
    loop <n> [iter=<name>]:                      A2 – invariant/decreases text for loop ordinal n
        invariant ...
    closure <n>:                                 A3 – `-> (r: T) requires .. ensures ..` for closure n
        ...
    hint after <n>: | hint before <n>: | hint start:      A4 – ghost text around top-level stmt n
        proof { ... }
    probe <name>:                                extra twin proved under `requires <text>` instead
        <region predicate>                       of the `carve:` predicate (known findings)
    carve <name>:                                region predicate excluded from the main proof
        <region predicate>

    == type <module::path> <name> [opt ...]     options for an extracted struct/enum
    == skip <module::path> <name>               repo item deliberately not brought under contract
    == raw <module::path>                       verus text appended to that module verbatim
        ...

A text block ends at the next line that starts (column 0) with `==` or a section keyword
followed by `:`; block lines keep their indentation.
"""
import re

SECTION_RE = re.compile(
    r'^(ret|requires|ensures|decreases|loop|closure|hint|probe|carve|opts|body|sig|wrap|bind|bodysub)\b([^:]*):\s*(.*)$')


class FnContract:
    def __init__(self, mod, name, opts, origin):
        self.mod = mod
        self.name = name
        self.opts = opts
        self.origin = origin
        self.ret = None
        self.requires = ''
        self.ensures = ''
        self.decreases = ''
        self.loops = {}      # n -> {'iter': name|None, 'text': str}
        self.closures = {}   # n -> text
        self.closure_params = {}  # n -> explicit parameter list (type ascription only)
        self.hints = []      # (where, n, text)
        self.probes = {}     # name -> text
        self.carves = {}     # name -> text
        self.sig_subst = []  # (old, new) textual substitutions in the signature (R2 etc.)
        self.body_subst = []  # (old, new, count) – only for listed rewrites (R4)
        self.binds = []      # (method, ordinal, hint text) – R7

    @property
    def key(self):
        return (self.mod, self.name)


class TypeOpts:
    def __init__(self, mod, name, opts, origin):
        self.mod, self.name, self.opts, self.origin = mod, name, opts, origin
        self.extra = ''


class VcFile:
    def __init__(self):
        self.fns = {}
        self.types = {}
        self.skips = {}
        self.raws = []  # (mod, text, origin)
        self.protofields = []


def parse_vc(path, into=None, features=()):
    vc = into or VcFile()
    features = set(features)
    cur = None          # current object
    sec = None          # (kind, arg)
    buf = []
    lines = open(path, encoding='utf-8').read().split('\n')

    def flush():
        nonlocal buf, sec
        if sec is None:
            buf = []
            return
        text = '\n'.join(buf).rstrip('\n')
        kind, arg = sec
        # feature guard: `closure 0 @miniwasm:` / `hint start @!miniwasm:`
        mg = re.search(r'\s@(!?)(\w+)\s*$', arg)
        if mg:
            arg = arg[:mg.start()]
            active = (mg.group(2) in features) != (mg.group(1) == '!')
            if not active:
                buf = []
                sec = None
                return
        if isinstance(cur, FnContract):
            if kind == 'requires':
                cur.requires = text
            elif kind == 'ensures':
                cur.ensures = text
            elif kind == 'decreases':
                cur.decreases = text
            elif kind == 'loop':
                m = re.match(r'\s*(\d+)(?:\s+iter=(\w+))?', arg)
                cur.loops[int(m.group(1))] = {'iter': m.group(2), 'text': text}
            elif kind == 'closure':
                mp = re.match(r'\s*(\d+)(?:\s+params=(.*))?$', arg.strip())
                cur.closures[int(mp.group(1))] = text
                if mp.group(2):
                    cur.closure_params[int(mp.group(1))] = mp.group(2).strip().replace('/', ': ')   # `r/&T` stands for `r: &T`
            elif kind == 'hint':
                a = arg.split()
                if a[0] == 'start':
                    cur.hints.append(('start', 0, text))
                elif a[0] == 'end':
                    cur.hints.append(('end', 0, text))
                elif a[1].startswith('~'):
                    # anchored by the (whitespace-normalised) text the statement starts with
                    cur.hints.append((a[0], arg.split('~', 1)[1].strip(), text))
                else:
                    cur.hints.append((a[0], int(a[1]), text))
            elif kind == 'bind':
                a = arg.split()
                cur.binds.append((a[0], int(a[1]), text))
            elif kind == 'probe':
                cur.probes[arg.strip()] = text
            elif kind == 'carve':
                cur.carves[arg.strip()] = text
        elif isinstance(cur, tuple) and cur[0] == 'raw':
            vc.raws.append((cur[1], text, cur[2]))
        elif isinstance(cur, tuple) and cur[0] == 'protofields':
            exp = {}
            for l in text.split('\n'):
                if ':' in l:
                    k, v = l.split(':', 1)
                    exp[k.strip()] = v.strip()
            vc.protofields.append({'mod': cur[1], 'name': cur[2], 'prop': cur[3], 'origin': cur[4], 'fields': exp})
        elif isinstance(cur, TypeOpts):
            if kind == 'body':
                cur.extra = text
        buf = []
        sec = None

    for ln, line in enumerate(lines, 1):
        origin = f'{path}:{ln}'
        if line.startswith('=='):
            flush()
            parts = line[2:].split()
            kind = parts[0]
            if kind == 'fn':
                # the name may contain spaces (`<M as Trait>::f`); options are the trailing known tokens
                rest = parts[2:]
                opts = []
                while rest and re.match(r'^(stub|R4|R11|noreach|spinoff|pin=\S+|rlimit=\d+|verified-in=\w+|shim=\S+|shape=\w+)$', rest[-1]):
                    opts.insert(0, rest.pop())
                cur = FnContract(parts[1], ' '.join(rest), opts, origin)
                if cur.key in vc.fns:
                    raise SystemExit(f'{origin}: duplicate contract for {cur.key}')
                vc.fns[cur.key] = cur
            elif kind == 'type':
                cur = TypeOpts(parts[1], parts[2], parts[3:], origin)
                vc.types[(parts[1], parts[2])] = cur
            elif kind == 'skip':
                # the name may contain spaces (`<T as Trait<X>>`); a comment may follow after two blanks + `(`
                rest = line[2:].strip()[len('skip'):].strip()[len(parts[1]):].strip()
                nm, _, why = rest.partition('  (')
                vc.skips[(parts[1], nm.strip())] = why.rstrip(')')
                cur = None
            elif kind == 'raw':
                cur = ('raw', parts[1], origin)
                sec = ('raw', '')
            elif kind == 'protofields':
                # expected #[prost(..)] attribute per field (ground obligations, one per field)
                cur = ('protofields', parts[1], parts[2], parts[3] if len(parts) > 3 else 'C19', origin)
                sec = ('protofields', '')
            else:
                raise SystemExit(f'{origin}: unknown header {kind}')
            continue
        if line.startswith('# ') or line == '#' or (line.startswith('#') and sec is None):
            continue
        m = SECTION_RE.match(line) if (line and not line[0].isspace()) else None
        if m and m.group(1) == 'hint' and '~' in line and line.rstrip().endswith(':'):
            # text anchors may contain colons: the header ends at the last ':' of the line
            class _M:
                def __init__(s, a): s.a = a
                def group(s, i): return ['', 'hint', s.a, ''][i]
            m = _M(line.rstrip()[len('hint'):-1])
        if m and not (isinstance(cur, tuple) and cur[0] in ('raw', 'protofields')):
            flush()
            kind, arg, rest = m.group(1), m.group(2), m.group(3)
            if kind == 'ret':
                cur.ret = rest.strip()
            elif kind in ('sig', 'bodysub'):
                # sig: s/old/new/   body: s|old|new|   (listed rewrites; counted)
                a = rest.strip()
                d = a[1]
                _, old, new, _ = a.split(d)
                (cur.sig_subst if kind == 'sig' else cur.body_subst).append((old, new))
            else:
                sec = (kind, arg)
                if rest.strip():
                    buf.append('    ' + rest)
            continue
        if sec is not None:
            buf.append(line)
    flush()
    return vc
