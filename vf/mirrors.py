"""Witness search on the real crates (replay/): after a proof obligation of a property fails,
`vreplay` drives the real handlers of /repo (path dependency, mock storage) over boundary and
seeded random inputs of the families that exercise that property and compares with an executable
transliteration of the contract clauses.  A mismatch is a concrete failing input.  The search
never changes a verdict: no witness -> the VIOLATION line ends `no-failing-input-found`."""
import json
import os
import shutil
import subprocess

from .assemble import VERIF, REPO

FAMILIES = {
    'C01': ['stake', 'rewards', 'batch', 'ibc', 'recover', 'instantiate'],
    'C02': ['stake', 'rewards', 'batch', 'fee_withdraw', 'ibc', 'recover', 'funds'],
    'C03': ['stake', 'batch', 'recover'],
    'C04': ['stake', 'batch'],
    'C05': ['batch', 'funds', 'queries'],
    'C06': ['batch', 'funds', 'instantiate'],
    'C07': ['recover', 'ibc', 'stake'],
    'C08': ['auth', 'ownership', 'recover', 'rewards', 'batch', 'funds', 'instantiate', 'config'],
    'C09': ['rewards', 'batch', 'config', 'migrate'],
    'C10': ['halt', 'auth', 'instantiate'],
    'C11': ['rewards', 'fee_withdraw'],
    'C12': ['ownership', 'treasury_ownership'],
    'C13': ['treasury'],
    'C14': ['validation', 'config', 'instantiate'],
    'C15': ['stake', 'rewards', 'batch', 'auth'],
    'C17': ['queries'],
    'C18': ['migrate'],
    'C19': ['instantiate', 'stake', 'batch'],
    'C20': ['proto'],
    'C16': ['stake', 'rewards', 'batch', 'auth', 'ownership', 'fee_withdraw', 'validation', 'recover', 'halt', 'config',
            'queries', 'treasury', 'treasury_ownership', 'ibc', 'funds', 'instantiate', 'migrate'],
}
CASES = 3000
MINIWASM_TOO = {'C19'}


def _crate_dir():
    work = os.environ.get('VERIF_WORK', os.path.join(VERIF, 'work'))
    return os.path.join(work, 'replay-crate')


def build(repo=None, features=()):
    """(re)generates the driver crate against the current tree and builds it offline"""
    repo = repo or REPO
    d = _crate_dir() + ('-' + '-'.join(features) if features else '')
    os.makedirs(os.path.join(d, 'src'), exist_ok=True)
    tpl = open(os.path.join(VERIF, 'replay', 'Cargo.toml.in')).read().replace('@REPO@', repo)
    open(os.path.join(d, 'Cargo.toml'), 'w').write(tpl)
    shutil.copy(os.path.join(VERIF, 'replay', 'src', 'main.rs'), os.path.join(d, 'src', 'main.rs'))
    shutil.copy(os.path.join(repo, 'Cargo.lock'), os.path.join(d, 'Cargo.lock'))
    env = dict(os.environ, CARGO_NET_OFFLINE='true',
               CARGO_TARGET_DIR=os.environ.get('VERIF_REPLAY_TARGET', os.path.join(VERIF, 'target', 'replay')) + ('-' + '-'.join(features) if features else ''))
    # artifacts of path dependencies built from another tree must never be reused
    stamp = os.path.join(env['CARGO_TARGET_DIR'], '.built-against')
    if os.path.exists(stamp) and open(stamp).read() != repo:
        subprocess.run(['cargo', 'clean', '--offline', '--release', '-p', 'staking', '-p', 'treasury', '-p', 'milky_way',
                        '-p', 'initia-proto', '-p', 'vreplay'], cwd=d, env=env, capture_output=True, text=True)
    os.makedirs(env['CARGO_TARGET_DIR'], exist_ok=True)
    open(stamp, 'w').write(repo)
    p = subprocess.run(['cargo', 'build', '--release', '--offline', '--quiet'] + (['--features', ','.join(features)] if features else []), cwd=d, env=env,
                       capture_output=True, text=True, timeout=1200)
    if p.returncode != 0:
        raise RuntimeError('replay driver does not build against this tree: ' + p.stderr[-1500:])
    return os.path.join(env['CARGO_TARGET_DIR'], 'release', 'vreplay')


def search(pid, v, seed, cases=None):
    fams = FAMILIES.get(pid)
    if not fams:
        return None
    exe = build()
    p = subprocess.run([exe, 'search', ','.join(fams), str(seed or 1), str(cases or CASES), pid],
                       capture_output=True, text=True, timeout=1800)
    line = (p.stdout.strip().split('\n') or ['null'])[-1]
    w = json.loads(line)
    if w is None and pid in MINIWASM_TOO:
        # the other build variant of the staking contract (cargo feature `miniwasm`)
        exe = build(features=('miniwasm',))
        p = subprocess.run([exe, 'search', ','.join(f for f in fams if f in ('instantiate', 'stake', 'batch', 'rewards')), str(seed or 1), str(cases or CASES), pid],
                           capture_output=True, text=True, timeout=1800)
        w = json.loads((p.stdout.strip().split('\n') or ['null'])[-1])
        if w is not None and pid not in (w.get('props') or [])[:-1]:
            # tagged for this property only because it showed up in the miniwasm build ("the two builds behave identically"):
            # that holds only if the default build does NOT fail on the same case
            exe0 = build()
            p0 = subprocess.run([exe0, 'rerun', w['family'], str(w['seed']), str(w['case'])], capture_output=True, text=True)
            if p0.returncode == 1:
                w = None
        if w is not None:
            w['build'] = 'miniwasm'
    if w is None:
        return None
    w['cmd'] = f'vreplay rerun {w["family"]} {w["seed"]} {w["case"]}' + (' (driver built with --features miniwasm)' if w.get('build') else '')
    w['how'] = ('real handlers of the staking/treasury crates on mock storage, compared with the executable '
                'transliteration of the contract clauses in /verif/replay/src/main.rs')
    return w


def rerun(rec):
    w = rec['witness']
    exe = build(features=('miniwasm',) if w.get('build') == 'miniwasm' else ())
    p = subprocess.run([exe, 'rerun', w['family'], str(w['seed']), str(w['case'])], capture_output=True, text=True)
    print(p.stdout.strip())
    return 1 if p.returncode == 1 else 0
