from .manifest import CLAIMED, NOT_APPLICABLE

CLAIMED.update({
    'C10': ('Every handler of the staking contract is verified by Verus against a whole-store frame contract: halted => Err(Halted) and store unchanged; breaker/resume change exactly the stated fields. Holds for all stores, senders and arguments.', 'DESIGN.md section 6 C10', ''),
})
