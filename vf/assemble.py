"""Assembler: cuts the real items out of /repo by the spans `vx` reports, inserts contract text
(A1-A4), applies the closed list of rewrites (R1-R6) and writes one Verus file per world plus
its vacuity twin file and a map from output byte ranges back to functions / labels.

Nothing here edits code by pattern except the rewrites listed in DESIGN.md section 2.2; every
application is counted in `counters`.
"""
import hashlib
import json
import os
import re
import subprocess
import sys

from .vcparse import parse_vc, FnContract, TypeOpts

VERIF = os.path.dirname(os.path.dirname(os.path.abspath(__file__)))
REPO = os.environ.get('VERIF_REPO', '/repo')
VX = os.environ.get('VERIF_VX', os.path.join(VERIF, 'target', 'release', 'vx'))


GHOST_OPEN = '/*vfg<*/'
GHOST_CLOSE = '/*>vfg*/'


class Inconclusive(Exception):
    """Anything that is not a verdict (lost anchor, unsupported construct, ...) -> exit 2."""


def sha(b):
    return hashlib.sha256(b).hexdigest()


def run_vx(files):
    if not os.path.exists(VX):
        raise Inconclusive(f'extractor not built: {VX} (run setup_cmd)')
    out = subprocess.run([VX] + files, capture_output=True, text=True)
    if out.returncode != 0:
        raise Inconclusive('vx failed: ' + out.stderr[-2000:])
    return json.loads(out.stdout)


LABEL_RE = re.compile(r'(?://|/\*)\s*\[([A-Za-z0-9_.\-:#@]+)\]')
LABEL_GROUP_RE = re.compile(r'(?://|/\*)((?:\s*\[[A-Za-z0-9_.\-:#@]+\])+)')


def labels_in(text):
    out = []
    for mg in LABEL_GROUP_RE.finditer(text):
        out += re.findall(r'\[([A-Za-z0-9_.\-:#@]+)\]', mg.group(1))
    return out


FIELD_ATTR_DROP = {'serde', 'prost', 'error', 'from', 'returns', 'schemars', 'source'}


class Out:
    """Growing output text with byte-accurate position tracking."""

    def __init__(self):
        self.parts = []
        self.n = 0

    def w(self, s):
        b = s.encode('utf-8')
        self.parts.append(b)
        self.n += len(b)

    def pos(self):
        return self.n

    def bytes(self):
        return b''.join(self.parts)


def apply_edits(src: bytes, base: int, end: int, edits):
    """edits: list of (start, end, replacement_bytes) in absolute offsets within [base,end)."""
    edits = sorted(edits, key=lambda e: (e[0], e[1]))
    out = []
    cur = base
    for s, e, r in edits:
        if s < cur:
            raise Inconclusive(f'overlapping edits at {s} (cur {cur})')
        out.append(src[cur:s])
        out.append(r)
        cur = e
    out.append(src[cur:end])
    return b''.join(out)


def split_format(lit_text):
    """Split a Rust format string literal (as source text, with quotes) into pieces.
    Returns list of ('lit', str) / ('arg', spec) or None when a placeholder carries a format
    spec (`{:?}` etc.), which R3 does not touch."""
    if not (lit_text.startswith('"') and lit_text.endswith('"')):
        return None
    body = lit_text[1:-1]
    # decode the escapes that occur in the repo's format strings
    s = []
    i = 0
    while i < len(body):
        c = body[i]
        if c == '\\':
            n = body[i + 1]
            s.append({'n': '\n', 't': '\t', '"': '"', '\\': '\\', "'": "'", '0': '\0'}.get(n))
            if s[-1] is None:
                return None
            i += 2
        else:
            s.append(c)
            i += 1
    s = ''.join(s)
    pieces = []
    cur = ''
    i = 0
    while i < len(s):
        c = s[i]
        if c == '{':
            if i + 1 < len(s) and s[i + 1] == '{':
                cur += '{'
                i += 2
                continue
            j = s.index('}', i)
            spec = s[i + 1:j]
            if spec.endswith(':?'):
                if cur:
                    pieces.append(('lit', cur))
                    cur = ''
                pieces.append(('dbg', spec[:-2]))
                i = j + 1
                continue
            if ':' in spec:
                return None
            if cur:
                pieces.append(('lit', cur))
                cur = ''
            pieces.append(('arg', spec))
            i = j + 1
        elif c == '}':
            if i + 1 < len(s) and s[i + 1] == '}':
                cur += '}'
                i += 2
                continue
            return None
        else:
            cur += c
            i += 1
    if cur:
        pieces.append(('lit', cur))
    return pieces


def rust_str(s):
    return '"' + s.replace('\\', '\\\\').replace('"', '\\"').replace('\n', '\\n').replace('\t', '\\t') + '"'


def split_top_commas(text):
    """split macro argument text at top-level commas"""
    out, depth, cur, i = [], 0, '', 0
    in_str = False
    while i < len(text):
        c = text[i]
        if in_str:
            cur += c
            if c == '\\':
                cur += text[i + 1]
                i += 1
            elif c == '"':
                in_str = False
        elif c == '"':
            in_str = True
            cur += c
        elif c in '([{':
            depth += 1
            cur += c
        elif c in ')]}':
            depth -= 1
            cur += c
        elif c == ',' and depth == 0:
            out.append(cur)
            cur = ''
        else:
            cur += c
        i += 1
    if cur.strip():
        out.append(cur)
    return [a.strip() for a in out]


class World:
    def __init__(self, name, features=(), force_stub=()):
        self.name = name
        self.force_stub = set(force_stub)
        self.degraded = {}
        self.dir = os.path.join(VERIF, 'contracts', name)
        self.cfg = json.load(open(os.path.join(self.dir, 'world.json')))
        self.features = set(features)
        self._resolve_registry_files()
        self.vc = None
        for fn in sorted(os.listdir(self.dir)):
            if fn.endswith('.vc'):
                self.vc = parse_vc(os.path.join(self.dir, fn), self.vc, self.features)
        self.counters = {k: 0 for k in ['R1', 'R2', 'R3', 'R4', 'R5', 'R6', 'R7', 'R10', 'R11', 'A1', 'A2', 'A3', 'A4']}
        self.fnmap = []       # per emitted fn: dict
        self.uncontracted = []
        self.used_contracts = set()
        self.used_types = set()
        self.dropped_unresolved = []
        self.stubs = []
        self.dropped_hints = {}
        self.lemma_twins = []

    def _resolve_registry_files(self):
        """`"file": "registry:<crate>/<path>"` names a source file of a dependency: the version is the one pinned in
        /repo/Cargo.lock, the text is read from the cargo registry (what cargo compiles into the contracts)"""
        import glob as _glob
        lock = None
        self.registry_crates = {}
        for m in self.cfg['modules']:
            f = m.get('file', '')
            if not f.startswith('registry:'):
                continue
            crate, rel = f[len('registry:'):].split('/', 1)
            if lock is None:
                lock = open(os.path.join(REPO, 'Cargo.lock')).read()
            vers = re.findall(r'name = "%s"\nversion = "([^"]+)"' % re.escape(crate), lock)
            if len(vers) != 1:
                raise Inconclusive(f'lost anchor: {crate} has {len(vers)} versions in Cargo.lock')
            cargo_home = os.environ.get('CARGO_HOME', os.path.expanduser('~/.cargo'))
            hits = _glob.glob(os.path.join(cargo_home, 'registry', 'src', '*', f'{crate}-{vers[0]}', rel))
            if not hits:
                raise Inconclusive(f'{crate}-{vers[0]}/{rel} is not in the cargo registry')
            m['file'] = hits[0]
            m['registry'] = f'{crate}-{vers[0]}/{rel}'
            self.registry_crates[crate] = vers[0]

    # ------------------------------------------------------------------ modules
    def modules(self):
        mods = []
        for m in self.cfg['modules']:
            feat = m.get('feature')
            nfeat = m.get('not_feature')
            if feat and feat not in self.features:
                continue
            if nfeat and nfeat in self.features:
                continue
            mods.append(m)
        return mods

    def build(self, reach=False):
        mods = self.modules()
        files = sorted({os.path.join(REPO, m['file']) for m in mods if 'file' in m})
        missing = [f for f in files if not os.path.exists(f)]
        if missing:
            raise Inconclusive(f'lost anchor: source file(s) missing: {missing}')
        index = run_vx(files)
        for f, v in index.items():
            if 'error' in v:
                raise Inconclusive(f'cannot parse {f}: {v["error"]}')
        self.index = index
        self._compute_emitted(mods)
        self._find_unmodelled(mods)
        out = Out()
        out.w('// GENERATED by /verif/vf/assemble.py from /repo -- do not edit.\n')
        out.w('#![allow(unused_imports, dead_code, unused_variables, unused_mut, unused_parens, non_snake_case, unused_braces, unused_assignments, unreachable_code, non_camel_case_types, unused_macros)]\n')
        out.w('#![feature(slice_concat_trait, pattern, allocator_api)]\n')
        out.w('use vstd::prelude::*;\n')
        out.w(open(os.path.join(VERIF, 'shim', 'macros.rs')).read())
        for sh in self.cfg['shim']:
            if isinstance(sh, dict):
                if sh.get('feature') and sh['feature'] not in self.features:
                    continue
                sh = sh['name']
            p = os.path.join(VERIF, 'shim', sh + '.rs')
            out.w(f'\n// ---- shim: {sh} ----\npub mod {sh.split("/")[-1]} {{\n')
            out.w(open(p).read())
            out.w('\n}\n')
        for sp in self.cfg.get('spec', []):
            out.w(f'\n// ---- spec: {sp["mod"]} ----\npub mod {sp["mod"]} {{\n')
            out.w(self.cfg.get('spec_prelude', 'use vstd::prelude::*;\n'))
            for f in sp['files']:
                if isinstance(f, dict):
                    if f.get('feature') and f['feature'] not in self.features:
                        continue
                    if f.get('not_feature') and f['not_feature'] in self.features:
                        continue
                    f = f['file']
                out.w(f'// file {f}\n')
                text = open(os.path.join(self.dir, f)).read()
                out.w(text)
                out.w('\n')
                if reach:
                    tw = self._lemma_twins(text)
                    if tw:
                        out.w('verus! {\n' + tw + '} // verus! (lemma reach twins)\n')
            out.w('}\n')
        out.w(self.cfg.get('root_text', ''))
        if 'type_urls' in self.cfg:
            self._emit_type_urls(out)
        if self.cfg.get('wire_compat') and not reach:
            self._emit_wire_compat(out)
        if self.cfg.get('macro_checks') and not reach:
            self._check_macros()
        if self.cfg.get('storage_keys') and not reach:
            self._emit_storage_keys(out, mods)
        if self.cfg.get('storage_keys_same') and not reach:
            self._emit_storage_keys_same(out, mods)
        # module tree
        tree = {}
        for m in mods:
            node = tree
            for seg in m['mod'].split('::'):
                node = node.setdefault(seg, {})
            node['__mod__'] = m
        self._emit_tree(out, tree, reach)
        out.w('\nfn main() {}\n')
        # closed-world bookkeeping
        unused = [k for k in self.vc.fns if k not in self.used_contracts and not self._feature_hidden(k)]
        if unused:
            raise Inconclusive('lost anchor: contract(s) with no matching function in /repo: ' +
                               ', '.join(f'{m}::{n}' for m, n in unused))
        return out.bytes()

    def _compute_emitted(self, mods):
        """names each extracted module will define (used to drop `use` leaves that point at
        repo items not (yet) under contract; a body that needs one then fails to compile,
        which is reported as inconclusive, never as a verdict)."""
        self.emitted = {}
        self.raw_mods = {r[0] for r in self.vc.raws}
        for m in mods:
            if 'file' not in m:
                continue
            path = os.path.join(REPO, m['file'])
            names = self.emitted.setdefault(m['mod'], set())
            for it in self.index[path]['items']:
                k = it['kind']
                # items of inline modules are registered under mod::inline
                pp = it.get('path', '')
                sub = '::'.join(pp.split('::')[:-1]) if k != 'impl' else ''
                modpath = m['mod'] + ('::' + sub if sub else '')
                tgt = self.emitted.setdefault(modpath, set())
                if k in ('struct', 'enum', 'const', 'type', 'trait'):
                    if (modpath, it['name']) not in self.vc.skips:
                        tgt.add(it['name'])
                elif k == 'fn':
                    if (modpath, it['name']) in self.vc.fns:
                        tgt.add(it['name'])
                elif k == 'mod' and it.get('inline') and not it.get('test'):
                    tgt.add(it['name'])
        # parent modules see child modules
        for m in mods:
            segs = m['mod'].split('::')
            for i in range(1, len(segs)):
                self.emitted.setdefault('::'.join(segs[:i]), set()).add(segs[i])

    def _find_unmodelled(self, mods):
        """stored value types without a slot in the abstract store (new storage added by a change): they get a
        default `Serialize` impl so that the world still type-checks, and every function that mentions a handle
        of such a type is degraded to undecided (closed world, DESIGN 2.2)"""
        spec_text = ''
        for sp in self.cfg.get('spec', []):
            for f in sp['files']:
                f = f['file'] if isinstance(f, dict) else f
                spec_text += open(os.path.join(self.dir, f)).read()
        self.auto_serialize = set()
        self.unmodelled_handles = set()
        known_generic = {'u64'}
        for m in mods:
            if 'file' not in m:
                continue
            path = os.path.join(REPO, m['file'])
            for it in self.index[path]['items']:
                if it['kind'] == 'const':
                    mt = re.match(r'^(Item|Map)\s*<(.*)>$', it['ty'].strip(), re.S)
                    if not mt:
                        continue
                    vt = mt.group(2).split(',')[-1].strip()
                    base = vt.split('::')[-1]
                    if base in known_generic:
                        continue
                    if not re.search(r'impl\s+crate::serde::Serialize\s+for\s+(?:[\w:]*::)?' + re.escape(base) + r'\b', spec_text):
                        self.auto_serialize.add(base)
                        self.unmodelled_handles.add(it['name'])

    def _shim_names(self, shim):
        if not hasattr(self, '_shim_cache'):
            self._shim_cache = {}
        if shim not in self._shim_cache:
            try:
                t = open(os.path.join(VERIF, 'shim', shim + '.rs')).read()
            except OSError:
                t = ''
            names = set(re.findall(r'pub\s+(?:exec\s+)?(?:open\s+|closed\s+|uninterp\s+)?(?:spec\s+|proof\s+|broadcast\s+)?(?:const\s+)?(?:struct|enum|fn|trait|type|const|mod)\s+(\w+)', t))
            names |= set(re.findall(r'pub\s+use\s+[^;]*?(\w+)\s*;', t))
            for mg in re.findall(r'pub\s+use\s+[^;{]*\{([^}]*)\}', t):
                names |= set(re.findall(r'(\w+)\s*(?:,|$)', mg))
            self._shim_cache[shim] = names
        return self._shim_cache[shim]

    def _leaf_resolves(self, p):
        """p: path list starting with 'crate'"""
        segs = p[1:]
        if not segs:
            return True
        top = {m['mod'].split('::')[0] for m in self.modules()}
        if segs[0] not in top:
            known = {(x['name'] if isinstance(x, dict) else x).split('/')[-1] for x in self.cfg['shim']} | {x['mod'] for x in self.cfg.get('spec', [])}
            return segs[0] in known or segs[0] in self.cfg.get('root_names', [])   # shim / spec module: let rustc judge; unknown module: drop
        # find the longest module prefix
        for i in range(len(segs), 0, -1):
            modp = '::'.join(segs[:i])
            if modp in self.emitted:
                rest = segs[i:]
                if not rest or rest == ['self']:
                    return True
                if rest[0] in self.emitted[modp]:
                    return True
                for rmod, text, _ in self.vc.raws:
                    if rmod == modp and re.search(r'\b(fn|struct|enum|const|type|trait)\s+' + re.escape(rest[0]) + r'\b', text):
                        return True
                return False
        return True

    def _emit_type_urls(self, out):
        """one ground obligation per `impl TypeUrl for X`: the literal equals
        "/" ++ <proto package of the file X's module include!s> ++ "." ++ <struct name>"""
        tu = self.cfg['type_urls']
        libp = os.path.join(REPO, tu['lib'])
        tup = os.path.join(REPO, tu['file'])
        for pth in (libp, tup):
            if not os.path.exists(pth):
                raise Inconclusive(f'lost anchor: {pth} missing')
        lib = open(libp).read()
        # module path -> include!()d proto file, by brace tracking over lib.rs
        pkg_of = {}
        stack = []
        depth = 0
        for mm in re.finditer(r'pub mod (?:r#)?(\w+)\s*\{|include!\("proto/([^"]+)\.rs"\)|\{|\}', lib):
            if mm.group(1):
                stack.append((mm.group(1), depth))
                depth += 1
            elif mm.group(2):
                pkg_of['::'.join(x[0] for x in stack)] = mm.group(2)
            elif mm.group(0) == '{':
                depth += 1
            else:
                depth -= 1
                if stack and stack[-1][1] == depth:
                    stack.pop()
        idx = run_vx([tup])[tup]
        out.w('\n// ---- generated: type URL obligations (' + tu['file'] + ') ----\npub mod type_url_obligations {\nuse vstd::prelude::*;\nverus! {\n')
        n = 0
        for it in idx['items']:
            if it['kind'] != 'impl' or not (it.get('trait') or '').endswith('TypeUrl'):
                continue
            ty = re.sub(r'\s+', '', it['self_ty']).replace('r#', '')
            segs = ty.split('::')
            if segs[0] == 'crate':
                segs = segs[1:]
            modp, sname = '::'.join(segs[:-1]), segs[-1]
            c = next((c for c in it['consts'] if c['name'] == 'TYPE_URL'), None)
            if c is None or modp not in pkg_of:
                raise Inconclusive(f'lost anchor: cannot resolve type URL impl for {ty}')
            lit = c['expr'].strip()
            if not (lit.startswith('"') and lit.endswith('"')):
                raise Inconclusive(f'unsupported: TYPE_URL of {ty} is not a string literal')
            pkg = pkg_of[modp]
            n += 1
            lab = f'{tu.get("label", "C20")}.type-url-{sname}'
            start = out.pos()
            out.w(f'\n// [{lab}]\npub proof fn type_url_{n}_{sname}()\n'
                  f'    ensures {lit}@ == "/"@ + ({rust_str(pkg)}@ + ("."@ + {rust_str(sname)}@))\n'
                  f'{{ reveal_strlit({lit}); reveal_strlit("/"); reveal_strlit({rust_str(pkg)}); reveal_strlit("."); reveal_strlit({rust_str(sname)}); }}\n')
        out.w('} // verus!\n}\n')
        self.generated_type_urls = n
        # closed world: every `impl TypeUrl for` in the file must have been read as a literal (impls produced by a macro
        # are invisible here; zero obligations would be a vacuous pass)
        textual = len(re.findall(r'impl\s+(?:crate::)?(?:traits::)?TypeUrl\s+for\b', open(tup).read()))
        if n == 0 or textual != n or 'macro_rules!' in open(tup).read():
            raise Inconclusive(f'unsupported: {tu["file"]} registers type URLs in a way the extractor cannot read '
                               f'({n} literal impls read, {textual} `impl TypeUrl for` in the text, macro: {"macro_rules!" in open(tup).read()})')

    def _emit_storage_keys(self, out, mods):
        """The abstract store gives every storage handle its own component; cw-storage-plus only does so when the
        namespace strings differ.  One ground obligation per pair of handles declared in the world's modules (plus
        the fixed namespaces of dependencies listed in world.json): the two literals are different strings.
        Also the closed-world guard for the type-keyed shim: two plain Items (or Maps) of one value type would be
        conflated by the abstract store -> undecided."""
        sk = self.cfg['storage_keys']
        labs = ' '.join(f'[{p}.storage-keys-distinct]' for p in sk['labels'])
        handles = []   # (display name, namespace literal text incl. quotes)
        kinds = r'(?:Item|Map|Admin|IndexedMap|UniqueIndex|MultiIndex|SnapshotMap|SnapshotItem|Deque)'
        typed = {}
        for m in mods:
            if 'file' not in m or m.get('shim'):
                continue
            if not m['file'].startswith(self.cfg['crate']):
                continue
            path = os.path.join(REPO, m['file'])
            text = open(path).read()
            # strip comments
            text_nc = re.sub(r'/\*.*?\*/', lambda mm: re.sub(r'[^\n]', ' ', mm.group(0)), text, flags=re.S)
            text_nc = re.sub(r'//[^\n]*', lambda mm: ' ' * len(mm.group(0)), text_nc)
            for mm in re.finditer(r'\b(' + kinds + r')\s*(?:::\s*<[^;{}]*?>)?\s*::\s*new\s*\(', text_nc):
                # balanced argument list
                i = mm.end()
                depth = 1
                while i < len(text_nc) and depth:
                    ch = text_nc[i]
                    if ch == '"':
                        j = i + 1
                        while text_nc[j] != '"':
                            j += 2 if text_nc[j] == '\\' else 1
                        i = j
                    elif ch in '([{':
                        depth += 1
                    elif ch in ')]}':
                        depth -= 1
                    i += 1
                args = text_nc[mm.end():i - 1]
                # literals of nested handle constructors belong to those
                nested = [(x.start(), x.end()) for x in re.finditer(kinds + r'\s*(?:::\s*<[^;{}]*?>)?\s*::\s*new\s*\(', args)]
                top = args
                if nested:
                    top = args[:nested[0][0]]
                lits = re.findall(r'"(?:[^"\\]|\\.)*"', top)
                if mm.group(1) in ('UniqueIndex', 'MultiIndex'):
                    lits = re.findall(r'"(?:[^"\\]|\\.)*"', args)[-2:] if mm.group(1) == 'MultiIndex' else re.findall(r'"(?:[^"\\]|\\.)*"', args)[-1:]
                if not lits:
                    # a named constant of the same file: `const NS: &str = "..";`
                    idents = re.findall(r'\b([A-Z][A-Z0-9_]+)\b', top if mm.group(1) not in ('UniqueIndex', 'MultiIndex') else args)
                    for idn in (idents[-1:] if mm.group(1) in ('UniqueIndex', 'MultiIndex') else idents[:1]):
                        mc = re.search(r'\bconst\s+' + re.escape(idn) + r'\s*:\s*&\s*(?:\'static\s+)?str\s*=\s*("(?:[^"\\]|\\.)*")\s*;', text_nc)
                        if mc:
                            lits = [mc.group(1)]
                if not lits:
                    raise Inconclusive(f'unsupported: the namespace of a storage handle in {m["file"]} is not a string literal: {mm.group(0)}{args[:60]}')
                line = text_nc.count('\n', 0, mm.start()) + 1
                # name: the const / let it initialises, else file:line
                pre = text_nc[max(0, mm.start() - 200):mm.start()]
                nm = re.findall(r'(?:const|static|let)\s+(?:mut\s+)?(\w+)\s*(?::[^=;]*)?=\s*$', pre)
                fld = re.findall(r'(\w+)\s*:\s*$', pre)
                name = (nm[-1] if nm else fld[-1] if fld else mm.group(1)) + f'@{os.path.basename(m["file"])}:{line}'
                cls = 'raw' if mm.group(1) in ('Item', 'Admin', 'SnapshotItem') else 'prefixed'
                for l in lits[:1] if mm.group(1) != 'MultiIndex' else lits:
                    handles.append((name, l, cls))
            for it in self.index[path]['items']:
                if it['kind'] == 'const':
                    mt = re.match(r'^(Item|Map)\s*<(.*)>$', it['ty'].strip(), re.S)
                    if mt:
                        vt = re.sub(r'\s+', '', mt.group(2).split(',')[-1])
                        typed.setdefault((mt.group(1), vt), []).append(it['name'])
        dup = {k: v for k, v in typed.items() if len(v) > 1}
        if dup:
            raise Inconclusive('unsupported: storage handles of one value type cannot be told apart by the abstract store: ' +
                               '; '.join(f'{k[0]}<..{k[1]}>: {", ".join(v)}' for k, v in dup.items()))
        for nm, lit in sk.get('extra', {}).items():
            handles.append((nm, rust_str(lit), 'raw'))
        if len(handles) < sk.get('min_handles', 2):
            raise Inconclusive(f'lost anchor: only {len(handles)} storage handles found (expected at least {sk.get("min_handles", 2)})')
        out.w('\n// ---- generated: storage namespaces are pairwise distinct ----\npub mod storage_key_obligations {\nuse vstd::prelude::*;\nverus! {\n')
        n = 0
        for i in range(len(handles)):
            for j in range(i + 1, len(handles)):
                (na, la, ca), (nb, lb, cb) = handles[i], handles[j]
                if ca != cb:
                    # an Item's key is its raw namespace, a Map's keys start with the 2-byte length of the namespace:
                    # handles of different encodings cannot collide for namespaces of printable text
                    continue
                va, vb = json.loads(la), json.loads(lb)   # plain literals only (no escapes beyond JSON's)
                hint = ''
                if len(va) != len(vb):
                    hint = f'assert({la}@.len() != {lb}@.len());'
                else:
                    k = next((k for k in range(len(va)) if va[k] != vb[k]), None)
                    if k is not None:
                        hint = f'assert({la}@[{k}] != {lb}@[{k}]);'
                n += 1
                ida = re.sub(r'\W', '_', na.split('@')[0])
                idb = re.sub(r'\W', '_', nb.split('@')[0])
                out.w(f'\n// {labs}  ({na} vs {nb})\npub proof fn storage_key_{n}_{ida}__{idb}()\n'
                      f'    ensures {la}@ != {lb}@\n'
                      f'{{ reveal_strlit({la}); reveal_strlit({lb}); {hint} }}\n')
        out.w('} // verus!\n}\n')
        self.generated_storage_keys = {'handles': [f'{a} = {b} ({c})' for a, b, c in handles], 'pairs': n}

    def _emit_storage_keys_same(self, out, mods):
        """Migrations read an old layout under the key the new layout uses: the abstract store of this world hard-wires
        which handles share a key.  One ground obligation per such pair: the two namespace literals are the same string."""
        sk = self.cfg['storage_keys_same']
        bymod = {m['mod']: m for m in mods if 'file' in m}
        out.w('\n// ---- generated: handles of different layouts that must share a storage key ----\npub mod storage_key_same_obligations {\nuse vstd::prelude::*;\nverus! {\n')
        n = 0
        for grp in sk['groups']:
            lits = []
            for h in grp:
                modp, name = h.rsplit('::', 1)
                m = bymod.get(modp)
                if m is None:
                    raise Inconclusive(f'lost anchor: module {modp} of storage handle {h} is not in the world')
                path = os.path.join(REPO, m['file'])
                it = next((i for i in self.index[path]['items'] if i['kind'] == 'const' and i['name'] == name), None)
                if it is None:
                    raise Inconclusive(f'lost anchor: storage handle {h} not found in {m["file"]}')
                ml = re.search(r'::\s*new\s*\(\s*("(?:[^"\\]|\\.)*")\s*\)\s*$', it['expr'].strip())
                if not ml:
                    # a named constant of the same file
                    mi = re.search(r'::\s*new\s*\(\s*([A-Z][A-Z0-9_]*)\s*\)\s*$', it['expr'].strip())
                    cst = mi and next((i for i in self.index[path]['items'] if i['kind'] == 'const' and i['name'] == mi.group(1)), None)
                    if cst and re.fullmatch(r'"(?:[^"\\]|\\.)*"', cst['expr'].strip()):
                        ml = re.match(r'(.*)', cst['expr'].strip())
                if not ml:
                    raise Inconclusive(f'unsupported: the namespace of storage handle {h} is not a string literal: {it["expr"][:80]}')
                lits.append((h, ml.group(1)))
            for (ha, la), (hb, lb) in zip(lits, lits[1:]):
                n += 1
                labs = ' '.join(f'[{p_}.legacy-storage-key-{ha.rsplit("::", 1)[1]}]' for p_ in sk['labels'])
                out.w(f'\n// {labs}  ({ha} vs {hb})\npub proof fn storage_key_same_{n}()\n    ensures {la}@ == {lb}@\n'
                      f'{{ reveal_strlit({la}); reveal_strlit({lb}); }}\n')
        out.w('} // verus!\n}\n')
        self.generated_storage_keys_same = n

    def _check_macros(self):
        """a macro the shim re-defines (it is expanded before Verus sees the code) must be, token for token, the
        dependency's macro (apart from the listed tolerated differences): text comparison, else undecided"""
        import glob as _glob
        lock = open(os.path.join(REPO, 'Cargo.lock')).read()
        done = []
        for mc in self.cfg['macro_checks']:
            crate, rel = mc['registry'].split('/', 1)
            vers = re.findall(r'name = "%s"\nversion = "([^"]+)"' % re.escape(crate), lock)
            cargo_home = os.environ.get('CARGO_HOME', os.path.expanduser('~/.cargo'))
            hits = _glob.glob(os.path.join(cargo_home, 'registry', 'src', '*', f'{crate}-{vers[0]}', rel)) if len(vers) == 1 else []
            if not hits:
                raise Inconclusive(f'macro check: {mc["registry"]} not found in the cargo registry')
            def grab(text, name):
                i = text.find(f'macro_rules! {name} ' + '{')
                if i < 0:
                    return None
                j = text.index('{', i)
                d, k = 1, j + 1
                while d:
                    d += {'{': 1, '}': -1}.get(text[k], 0)
                    k += 1
                t = re.sub(r'//[^\n]*', '', text[i:k])
                for tol in mc.get('tolerate', []):
                    t = t.replace(tol, '')
                return re.sub(r'\s+', '', t)
            theirs = grab(open(hits[0]).read(), mc['macro'])
            ours = grab(open(os.path.join(VERIF, 'shim', 'macros.rs')).read(), mc['macro'])
            if theirs is None or ours is None or theirs != ours:
                raise Inconclusive(f'macro check: shim macro `{mc["macro"]}!` differs from {crate}-{vers[0]}/{rel}\n  shim:  {ours}\n  crate: {theirs}')
            done.append(f'macros: {mc["macro"]}!')
        self.shim_blocks = getattr(self, 'shim_blocks', []) + done
        self.registry_crates = dict(getattr(self, 'registry_crates', {}), **{mc['registry'].split('/')[0]: 'macro text' for mc in self.cfg['macro_checks']})

    def _emit_wire_compat(self, out):
        """C20, wire compatibility: for every prost message (struct) and oneof (enum) of the bindings that an
        independently generated binding crate also defines (same protobuf package, same Rust path), one ground
        obligation per common field: the prost field attribute (wire type, cardinality, tag) is the same text.
        Equal literals are the same term; different ones cannot be proved equal."""
        wc = self.cfg['wire_compat']
        lock = open(os.path.join(REPO, 'Cargo.lock')).read()
        mv = re.search(r'name = "%s"\nversion = "([^"]+)"' % re.escape(wc['reference_crate']), lock)
        if not mv:
            raise Inconclusive(f'lost anchor: {wc["reference_crate"]} is not in Cargo.lock')
        import glob as _glob
        cargo_home = os.environ.get('CARGO_HOME', os.path.expanduser('~/.cargo'))
        roots = _glob.glob(os.path.join(cargo_home, 'registry', 'src', '*', f'{wc["reference_crate"]}-{mv.group(1)}', wc['reference_subdir']))
        if not roots:
            raise Inconclusive(f'reference crate {wc["reference_crate"]}-{mv.group(1)} is not in the cargo registry')
        root = roots[0]
        ours = sorted(_glob.glob(os.path.join(REPO, wc['proto_dir'], '*.rs')))
        refs = []
        for f in ours:
            pkg = os.path.basename(f)[:-3]
            rf = os.path.join(root, *pkg.split('.')) + '.rs'
            if os.path.exists(rf):
                refs.append((pkg, f, rf))
        if not refs:
            raise Inconclusive('lost anchor: no protobuf package is shared with the reference crate')
        idx = run_vx([f for _, f, _ in refs] + [rf for _, _, rf in refs])

        def norm(a):
            t = re.sub(r'\s+', ' ', a).strip()
            t = re.sub(r'^#\[prost\((.*)\)\]$', r'\1', t)
            t = re.sub(r'oneof = "[^"]*"', 'oneof', t)       # the Rust name of the oneof enum is not on the wire
            return t

        def table(file):
            tab = {}
            for it in idx[file]['items']:
                if it['kind'] == 'struct' and it['fields'].get('style') == 'named':
                    tab[it['path']] = {f['name'].replace('r#', ''): norm(a['text']) for f in it['fields']['fields'] for a in f['attrs'] if a['path'] == 'prost'}
                elif it['kind'] == 'enum' and any('Oneof' in a['text'] for a in it['attrs'] if a['path'] == 'derive'):
                    tab[it['path']] = {v['name']: norm(a['text']) for v in it['variants'] for a in v['attrs'] if a['path'] == 'prost'}
            return tab

        excl = wc.get('exclude', {})
        lab0 = wc.get('label', 'C20')
        out.w('\n// ---- generated: wire-compatibility obligations against ' + f'{wc["reference_crate"]}-{mv.group(1)}' + ' ----\n'
              'pub mod wire_compat_obligations {\nuse vstd::prelude::*;\nverus! {\n')
        n = nf = nx = 0
        for pkg, f, rf in refs:
            a, b = table(f), table(rf)
            for path in sorted(set(a) & set(b)):
                common = [k for k in a[path] if k in b[path]]
                clauses = []
                for k in common:
                    key = f'/{pkg}.{path}.{k}'
                    if key in excl:
                        nx += 1
                        continue
                    clauses.append(f'        {rust_str(a[path][k])}@ == {rust_str(b[path][k])}@,   // {k}')
                if not clauses:
                    continue
                n += 1
                nf += len(clauses)
                nm = re.sub(r'\W', '_', f'{pkg}_{path}')
                out.w(f'\n// [{lab0}.wire-{pkg}.{path.replace("::", ".")}]\npub proof fn wire_{n}_{nm}()\n    ensures\n' + '\n'.join(clauses) + '\n{ }\n')
        out.w('} // verus!\n}\n')
        self.generated_wire = {'messages': n, 'fields': nf, 'excluded': nx, 'reference': f'{wc["reference_crate"]}-{mv.group(1)}'}
        if n == 0:
            raise Inconclusive('vacuous: no shared message was compared')

    def _lemma_twins(self, text):
        """vacuity twins for labelled lemmas: same parameters and `requires`, `ensures false`, empty body.
        Each must FAIL; one that verifies has contradictory hypotheses."""
        out = []
        for mm in re.finditer(r'//\s*\[(C\d\d\.[^\]]+)\][^\n]*\n(?:\s*(?:///[^\n]*|#\[[^\n]*\])\n)*\s*pub proof fn\s+(\w+)', text):
            name = mm.group(2)
            start = text.index('pub proof fn', mm.start())
            # header up to the opening brace of the body at nesting depth 0
            i = text.index('(', start)
            depth = 0
            j = i
            while True:
                ch = text[j]
                if ch in '([{':
                    depth += 1
                elif ch in ')]}':
                    depth -= 1
                    if depth == 0:
                        break
                j += 1
            params_end = j + 1
            rest = text[params_end:]
            mreq = re.match(r'\s*requires', rest)
            if not mreq:
                continue
            k_ens = re.search(r'\n\s*ensures\b', rest)
            if not k_ens:
                continue
            req = rest[mreq.end():k_ens.start()]
            head = text[start:params_end].replace(f'fn {name}', f'fn {name}__reach', 1)
            out.append(f'{head}\n    requires {req.strip().rstrip(",")},\n    ensures false,\n{{ }}\n')
            self.lemma_twins.append(name)
        return '\n'.join(out)

    def _feature_hidden(self, key):
        # contracts for modules that are not part of this feature configuration
        active = {m['mod'] for m in self.modules()}
        allmods = {m['mod'] for m in self.cfg['modules']}
        return key[0] in allmods and key[0] not in active

    def _emit_tree(self, out, tree, reach, depth=0):
        for name, node in tree.items():
            if name == '__mod__':
                continue
            out.w(f'\npub mod {name} {{\n')
            if '__mod__' in node:
                self._emit_module(out, node['__mod__'], reach)
            self._emit_tree(out, node, reach, depth + 1)
            out.w(f'}} // mod {name}\n')

    # ------------------------------------------------------------------ one module
    def _emit_module(self, out, m, reach):
        if 'shim' in m:
            out.w(f'// ---- shim module: {m["shim"]} ----\n')
            out.w(open(os.path.join(VERIF, 'shim', m['shim'] + '.rs')).read())
            out.w('\n')
            return
        path = os.path.join(REPO, m['file'])
        src = open(path, 'rb').read()
        items = self.index[path]['items']
        mod = m['mod']
        out.w(f'// ---- extracted: {m.get("registry", m["file"])} ----\n')
        out.w(m.get('prelude', self.cfg.get('prelude', '')))
        for feat in sorted(self.features):
            out.w(self.cfg.get('prelude_' + feat, ''))
        out.w('\n')
        # use lines (R1)
        for it in items:
            if it['kind'] == 'use' and not self._in_inline_mod(it, items):
                out.w(self._emit_use(it))
        out.w('verus! {\n')
        out.w(self.cfg.get('verus_prelude', ''))
        self._emit_items(out, src, m, mod, items, reach, inline_prefix='')
        for rmod, text, origin in self.vc.raws:
            if rmod == mod:
                out.w(f'\n// raw from {os.path.relpath(origin, VERIF)}\n{self._expand_shim_blocks(text, origin)}\n')
        for pf in self.vc.protofields:
            if pf['mod'] != mod:
                continue
            st = next((i for i in items if i['kind'] == 'struct' and i['name'] == pf['name']), None)
            if st is None:
                raise Inconclusive(f'lost anchor: struct {pf["name"]} not found in {m["file"]}')
            have = {f['name']: [a for a in f['attrs'] if a['path'] == 'prost'] for f in st['fields']['fields']}
            if set(have) != set(pf['fields']):
                raise Inconclusive(f'lost anchor: fields of {pf["name"]} are {sorted(have)}, contract lists {sorted(pf["fields"])}')
            for fname, want in pf['fields'].items():
                got = re.sub(r'\s+', ' ', have[fname][0]['text']) if have[fname] else ''
                got = re.sub(r'^#\[prost\((.*)\)\]$', r'\1', got)
                out.w(f'\n// [{pf["prop"]}.field-{pf["name"]}.{fname}]\n'
                      f'pub proof fn prost_attr_{pf["name"]}_{fname}()\n    ensures {rust_str(got)}@ == {rust_str(want)}@\n'
                      f'{{ reveal_strlit({rust_str(got)}); reveal_strlit({rust_str(want)}); }}\n')
        out.w('} // verus!\n')

    def _expand_shim_blocks(self, text, origin):
        """`@shim-block <shimfile> <header text>` in raw text is replaced by the brace-balanced item of the shim file
        that starts with that header: the spec the shim assumes is then literally the spec this world verifies against"""
        def rep(mm):
            sf, head = mm.group(1), mm.group(2).strip()
            t = open(os.path.join(VERIF, 'shim', sf + '.rs')).read()
            i = t.find(head)
            if i < 0 or t.find(head, i + 1) >= 0:
                raise Inconclusive(f'{origin}: shim block {head!r} not found exactly once in shim/{sf}.rs')
            j = t.index('{', i)
            d = 1
            k = j + 1
            while d:
                d += {'{': 1, '}': -1}.get(t[k], 0)
                k += 1
            self.shim_discharged = getattr(self, 'shim_discharged', [])
            self.shim_blocks = getattr(self, 'shim_blocks', [])
            self.shim_blocks.append(f'{sf}: {head}')
            return f'// (text of shim/{sf}.rs)\n' + t[i:k]
        return re.sub(r'^[ \t]*@shim-block\s+(\w+)\s+(.*)$', rep, text, flags=re.M)

    def _in_inline_mod(self, it, items):
        s, e = it['span']
        for o in items:
            if o['kind'] == 'mod' and o.get('inline') and o['span'][0] < s and e <= o['span'][1]:
                return True
        return False

    def _emit_use(self, it):
        lines = []
        drop_roots = set(self.cfg.get('drop_use_roots', []))
        drop_leaves = set(self.cfg.get('drop_use_leaves', []))
        crate_roots = set(self.cfg.get('crate_roots', []))
        for lf in it['leaves']:
            p = lf['path']
            full = '::'.join(p)
            if p[0] in drop_roots or full in drop_leaves:
                self.counters['R1'] += 1
                continue
            if p[0] in crate_roots:
                p = ['crate'] + p
            if p[0] == 'crate' and not lf['glob'] and not self._leaf_resolves(p):
                self.counters['R1'] += 1
                self.dropped_unresolved.append(full)
                continue
            if p[-1] == 'self':
                p = p[:-1]
            s = '::'.join(p)
            if lf['glob']:
                s += '::*'
            if lf['alias']:
                s += f' as {lf["alias"]}'
            vis = (it.get('vis') or '')
            lines.append(f'{vis} use {s};\n'.lstrip())
        return ''.join(lines)

    def _emit_items(self, out, src, m, mod, items, reach, inline_prefix):
        inline_mods = [o for o in items if o['kind'] == 'mod' and o.get('inline') and not o.get('test')]
        test_mods = [o for o in items if o['kind'] == 'mod' and o.get('test')]

        def owner(it):
            s, e = it['span']
            best = None
            for o in inline_mods:
                if o['span'][0] < s and e <= o['span'][1]:
                    if best is None or o['span'][0] > best['span'][0]:
                        best = o
            return best['path'] if best else ''

        def in_test(it):
            s, e = it['span']
            return any(o['span'][0] <= s and e <= o['span'][1] for o in test_mods)

        # emit items whose owner is inline_prefix
        for it in items:
            if in_test(it):
                continue
            k = it['kind']
            if k == 'mod':
                if m.get('only') is not None and it.get('name') not in m['only']:
                    continue
                if it.get('inline') and not it.get('test') and self._parent(it['path']) == inline_prefix:
                    out.w(f'\n}} // verus!\npub mod {it["name"]} {{\n')
                    out.w(self.cfg.get('prelude', ''))
                    out.w('use super::*;\n')
                    for u in items:
                        if u['kind'] == 'use' and owner(u) == it['path'] and u.get('text') != 'use super::*;':
                            out.w(self._emit_use(u))
                    out.w('verus! {\n')
                    self._emit_items(out, src, m, mod, items, reach, it['path'])
                    out.w(f'}} // verus!\n}} // mod {it["name"]}\nverus! {{\n')
                continue
            if owner(it) != inline_prefix:
                continue
            if m.get('only') is not None and it.get('name') not in m['only']:
                continue
            modpath = mod + ('::' + inline_prefix if inline_prefix else '')
            if k in ('struct', 'enum'):
                self._emit_type(out, src, m, modpath, it)
            elif k == 'const':
                self._emit_const(out, src, m, modpath, it)
            elif k == 'type':
                out.w(src[it['start_no_attrs']:it['span'][1]].decode() + '\n')
            elif k == 'fn':
                self._emit_fn(out, src, m, modpath, it, it['name'], reach)
            elif k == 'impl':
                self._emit_impl(out, src, m, modpath, it, reach)
            elif k == 'trait':
                self._emit_trait(out, src, m, modpath, it, reach)

    @staticmethod
    def _parent(path):
        return '::'.join(path.split('::')[:-1])

    # ------------------------------------------------------------------ types (R1)
    def _emit_type(self, out, src, m, modpath, it):
        key = (modpath, it['name'])
        if key in self.vc.skips:
            return
        opts = self.vc.types.get(key)
        optset = set(opts.opts) if opts else set()
        if opts:
            self.used_types.add(key)
        # strip field / variant attributes that belong to derive macros
        edits = []
        from_variants = []

        def field_edits(fields, variant=None):
            for f in fields['fields']:
                for a in f['attrs']:
                    if a['path'] in FIELD_ATTR_DROP:
                        edits.append((a['span'][0], a['span'][1], b''))
                        self.counters['R1'] += 1
                        if a['path'] == 'from' and variant is not None:
                            from_variants.append((variant, f['ty']))

        if it['kind'] == 'struct':
            field_edits(it['fields'])
        else:
            for v in it['variants']:
                for a in v['attrs']:
                    if a['path'] in FIELD_ATTR_DROP:
                        edits.append((a['span'][0], a['span'][1], b''))
                        self.counters['R1'] += 1
                field_edits(v['fields'], v['name'])
        self.counters['R1'] += len(it['attrs'])
        serde_obl = self._serde_attrs(it, modpath)
        body = apply_edits(src, it['start_no_attrs'], it['span'][1], edits).decode()
        # R6: prost re-exports of alloc are the std types
        n6 = body.count('::prost::alloc::')
        if n6:
            body = body.replace('::prost::alloc::', '::std::')
            self.counters['R6'] += n6
        name = it['name']
        if 'pubfields' in optset:
            # visibility only: Verus treats a type with a pub(crate) field as opaque in the contracts of pub functions
            self.counters['R1'] += body.count('pub(crate)')
            body = body.replace('pub(crate)', 'pub')
        derives = ['#[derive(Debug)]']
        if 'structural' in optset:
            derives.append('#[derive(Structural, PartialEq, Eq)]')
        if 'copy' in optset:
            derives.append('#[derive(Clone, Copy)]')
        out.w('\n' + '\n'.join(derives) + ('\n' if derives else ''))
        out.w(body + '\n')
        gen = ''
        if 'copy' not in optset and 'noclone' not in optset:
            gen += (f'impl Clone for {name} {{\n    #[verifier::external_body]\n'
                    f'    fn clone(&self) -> (r: Self) ensures r == *self {{ unimplemented!() }}\n}}\n')
        if 'eqspec' in optset:
            gen += (f'impl vstd::std_specs::cmp::PartialEqSpecImpl for {name} {{\n'
                    f'    open spec fn obeys_eq_spec() -> bool {{ true }}\n'
                    f'    open spec fn eq_spec(&self, o: &{name}) -> bool {{ *self == *o }}\n}}\n'
                    f'impl PartialEq for {name} {{\n    #[verifier::external_body]\n'
                    f'    fn eq(&self, o: &{name}) -> (r: bool) ensures r == (*self == *o) {{ unimplemented!() }}\n}}\n')
        if name in getattr(self, 'auto_serialize', set()) and 'serialize' not in optset:
            gen += f'impl crate::serde::Serialize for {name} {{}}   // no slot in the abstract store: functions using it are undecided\n'
        if 'prostmsg' in optset:
            gen += f'impl crate::prost::Message for {name} {{}}\n'
        if 'serialize' in optset:
            gen += f'impl crate::serde::Serialize for {name} {{}}\n'
        for variant, ty in from_variants:
            gen += (f'impl From<{ty}> for {name} {{\n'
                    f'    fn from(e: {ty}) -> (r: Self) ensures r == {name}::{variant}(e) {{ {name}::{variant}(e) }}\n}}\n'
                    f'impl vstd::std_specs::convert::FromSpecImpl<{ty}> for {name} {{\n'
                    f'    open spec fn obeys_from_spec() -> bool {{ true }}\n'
                    f'    open spec fn from_spec(e: {ty}) -> Self {{ {name}::{variant}(e) }}\n}}\n')
        if opts and opts.extra:
            gen += opts.extra + '\n'
        out.w(gen)
        out.w(serde_obl)

    # ------------------------------------------------------------------ consts (R5)
    def _serde_attrs(self, it, modpath):
        """R1 drops `#[serde(..)]` attributes: the JSON shape of messages and stored values is not modelled.  Closed world:
        the attributes a world expects (world.json `serde_attrs.expected`, e.g. the ibc-hooks callback names of SudoMsg) become
        ground obligations `<found text> == <expected text>`; any OTHER serde attribute on an extracted type (rename, default,
        skip, flatten ..) may change what is stored or decoded, so every function that mentions the type is undecided."""
        cfgs = self.cfg.get('serde_attrs') or {}
        if cfgs.get('ignore'):
            return ''   # dependency worlds: the functions verified there do not touch (de)serialisation
        exp = cfgs.get('expected', {})
        name = it['name']
        found = {}
        cw = {'struct': '#[serde(deny_unknown_fields,crate="::cosmwasm_schema::serde")]',
              'enum': '#[serde(deny_unknown_fields,rename_all="snake_case",crate="::cosmwasm_schema::serde")]'}
        def note(where, attrs):
            for a in attrs:
                if a['path'] == 'serde':
                    if where == name and re.sub(r'\s+', '', a['text']) == cw.get(it['kind']):
                        continue   # what `#[cw_serde]` itself puts on a type of this kind (cosmwasm-schema-derive 1.5)
                    found.setdefault(where, []).append(re.sub(r'\s+', ' ', a['text']))
        note(name, it['attrs'])
        if it['kind'] == 'struct':
            for f in it['fields']['fields']:
                note(f'{name}.{f["name"]}', f['attrs'])
        else:
            for v in it['variants']:
                note(f'{name}::{v["name"]}', v['attrs'])
                for f in v['fields']['fields']:
                    note(f'{name}::{v["name"]}.{f["name"]}', f['attrs'])
        mine = {k: v for k, v in exp.items() if k == name or k.startswith(name + '::') or k.startswith(name + '.')}
        text = ''
        labs = ' '.join(f'[{p}.wire-names-{name}]' for p in cfgs.get('labels', []))
        for where in sorted(set(mine) | set(found)):
            got = ' '.join(found.get(where, []))
            if where in mine:
                want = mine[where]
                if want in found.get(where, []) and len(found[where]) > 1:
                    # the expected attribute is there, next to further serde attributes whose effect is not modelled
                    got = want
                    self.degraded[f'{modpath}::{name}'] = (f'unsupported: additional serde attributes on {where}: {" ".join(found[where])}')
                fid = re.sub(r'\W+', '_', where)
                text += (f'\n// {labs}  (serde attribute of {where})\npub proof fn serde_attr_{fid}()\n    ensures {rust_str(got)}@ == {rust_str(want)}@\n'
                         f'{{ reveal_strlit({rust_str(got)}); reveal_strlit({rust_str(want)}); }}\n')
            else:
                self.degraded[f'{modpath}::{name}'] = (f'unsupported: `{got}` on {where}: serde attributes change the stored / decoded representation, '
                                                       f'which the abstract store does not model')
        return text

    def _emit_const(self, out, src, m, modpath, it):
        key = (modpath, it['name'])
        if key in self.vc.skips:
            return
        text = src[it['start_no_attrs']:it['span'][1]].decode()
        ty = it['ty']
        expr = it['expr']
        vis = text[:text.index('const')]
        self.counters['R5'] += 1
        opts = self.vc.types.get(key)
        if opts:
            self.used_types.add(key)
        # env!("CARGO_PKG_*") -> literal from the crate's Cargo.toml
        me = re.fullmatch(r'env!\("(CARGO_PKG_NAME|CARGO_PKG_VERSION)"\)', expr.strip())
        if me:
            val = self._cargo_pkg(m)[me.group(1)]
            # made `pub` in the verified text so that contracts of pub functions may name it
            out.w(f'pub const {it["name"]}: &\'static str = {rust_str(val)};\n')
            return
        if ty.strip() == '&str':
            out.w(f'{vis}const {it["name"]}: &\'static str = {expr};\n')
            return
        if re.fullmatch(r'(u8|u16|u32|u64|u128|usize|i8|i16|i32|i64|i128|isize|bool)', ty.strip()) and \
                re.fullmatch(r'[\s\d_()+\-*/%a-z]+|true|false', expr.strip()) and not (opts and opts.extra):
            # a primitive constant defined by literals and arithmetic: a plain `const` is both spec and exec in Verus, so its
            # value is known wherever it is used (an `exec const` without `ensures` would hide it - false alarm on an edit that
            # merely names a literal)
            out.w(f'{vis}const {it["name"]}: {ty.strip()} = {expr};\n')
            return
        mt = re.match(r'^(Item|Map|Admin)\s*<(.*)>$', ty.strip(), re.S)
        if mt:
            ty = f"{mt.group(1)}<'static, {mt.group(2)}>"
        elif ty.strip() == 'Admin':
            ty = "Admin<'static>"
        ens = ''
        if opts and opts.extra:
            ens = ' ' + opts.extra.strip() + ' '
            out.w(f'{vis}exec const {it["name"]}: {ty}\n    {opts.extra.strip()}\n{{ {expr} }}\n')
        else:
            out.w(f'{vis}exec const {it["name"]}: {ty} = {expr};\n')

    def _cargo_pkg(self, m):
        # crate directory = nearest ancestor with Cargo.toml
        d = os.path.dirname(os.path.join(REPO, m['file']))
        while d != '/' and not os.path.exists(os.path.join(d, 'Cargo.toml')):
            d = os.path.dirname(d)
        toml = open(os.path.join(d, 'Cargo.toml')).read()
        name = re.search(r'^name\s*=\s*"([^"]+)"', toml, re.M).group(1)
        mv = re.search(r'^version\s*=\s*"([^"]+)"', toml, re.M)
        if mv:
            ver = mv.group(1)
        else:
            # version = { workspace = true }
            ws = open(os.path.join(REPO, 'Cargo.toml')).read()
            ver = re.search(r'\[workspace\.package\][^\[]*?^version\s*=\s*"([^"]+)"', ws, re.M | re.S).group(1)
        return {'CARGO_PKG_NAME': name, 'CARGO_PKG_VERSION': ver}

    # ------------------------------------------------------------------ impl blocks
    def _emit_impl(self, out, src, m, modpath, it, reach):
        if (modpath, it['name']) in self.vc.skips:
            return
        self_ty = it['self_ty'] if it['trait'] is None else it['name']
        have = [mm for mm in it['methods'] if (modpath, f'{self_ty}::{mm["name"]}') in self.vc.fns]
        if it['trait'] is not None and not have:
            eq = self._from_impl_like_derive(src, m, it)
            if eq is not None:
                # a hand-written `impl From<X> for E { fn from(x) -> Self { E::V(x) } }` is exactly what thiserror's `#[from]` on
                # variant V generates, and R1 gives that the obvious contract: same here (counted as R1)
                ename, variant, xty = eq
                self.counters['R1'] += 1
                out.w(f'\nimpl From<{xty}> for {ename} {{\n'
                      f'    fn from(e: {xty}) -> (r: Self) ensures r == {ename}::{variant}(e) {{ {ename}::{variant}(e) }}\n}}\n'
                      f'impl vstd::std_specs::convert::FromSpecImpl<{xty}> for {ename} {{\n'
                      f'    open spec fn obeys_from_spec() -> bool {{ true }}\n'
                      f'    open spec fn from_spec(e: {xty}) -> Self {{ {ename}::{variant}(e) }}\n}}\n')
                return
            if self._impl_like_derive(src, m, it):
                # a hand-written PartialEq / Clone that is, field for field, what the derive generates: R1's meaning stands
                self.counters['R1'] += 1
                return
            self.uncontracted.append({'mod': modpath, 'name': it['name'], 'file': m['file'], 'kind': 'trait-impl'})
            # closed world: R1 gives extracted types the meaning of their *derived* PartialEq / Clone, and the shim gives
            # std traits their std meaning; a hand-written trait impl that is neither under contract nor listed `== skip`
            # may change what `==`, `clone()`, `from()` .. mean for this type -> every function that mentions the type is undecided
            tname = re.sub(r'<.*$', '', (it.get('self_ty') or '').strip()).split('::')[-1]
            if tname:
                self.degraded[f'{modpath}::{tname}'] = (f'unsupported: hand-written `impl {it["trait"]} for {it.get("self_ty")}` in {m["file"]} is not under contract '
                                                        f'(the verified text assumes the derived / std meaning of that trait for the type)')
            return
        if not have:
            for mm in it['methods']:
                self._note_uncontracted(modpath, f'{self_ty}::{mm["name"]}', m, mm, src)
            return
        head = src[it['start_no_attrs']:it['brace'][0][1]].decode()
        out.w('\n' + head + '\n')
        for ty in it.get('types', []):
            out.w('    ' + ty['text'] + '\n')
        for cst in it.get('consts', []):
            # R5 for an associated const a verified function reads: `exec const` with the contract file's `ensures`
            ck = (modpath, f'{self_ty}::{cst["name"]}')
            if ck in self.vc.types and it['trait'] is None:
                self.used_types.add(ck)
                self.counters['R5'] += 1
                out.w(f'    pub exec const {cst["name"]}: {cst["ty"]}\n        {self.vc.types[ck].extra.strip()}\n    {{ {cst["expr"]} }}\n')
        for mm in it['methods']:
            self._emit_fn(out, src, m, modpath, mm, f'{self_ty}::{mm["name"]}', reach, indent='    ')
        out.w('}\n')

    def _impl_like_derive(self, src, m, it):
        """True for `impl PartialEq for S { fn eq(&self, o: &Self) -> bool { self.a == o.a && self.b == o.b .. } }` naming every field of the
        struct S (defined in the same file) exactly once, and for `impl Clone for S { fn clone(&self) -> Self { Self { a: self.a.clone(), .. } } }`
        likewise - the derived meaning, written out"""
        tr = re.sub(r'\s+', '', it.get('trait') or '')
        sname = re.sub(r'\s+', '', it.get('self_ty') or '')
        if tr not in ('PartialEq', 'Clone') or len(it['methods']) != 1 or it.get('types') or it.get('consts'):
            return False
        path = os.path.join(REPO, m['file'])
        st = next((i for i in self.index[path]['items'] if i['kind'] == 'struct' and i['name'] == sname), None)
        if st is None or not st['fields']['fields'] or any(not re.fullmatch(r'\w+', f['name']) or f['name'].isdigit() for f in st['fields']['fields']):
            return False
        fields = sorted(f['name'] for f in st['fields']['fields'])
        mm = it['methods'][0]
        body = re.sub(r'\s+', '', re.sub(rb'//[^\n]*', b'', src[mm['block'][0]:mm['block'][1]]).decode())
        ins = mm['sig']['inputs']
        if tr == 'PartialEq':
            if mm['name'] != 'eq' or len(ins) != 2 or re.sub(r'\s+', '', ins[1].get('ty') or '') not in ('&Self', '&' + sname):
                return False
            o = ins[1]['name']
            if not (body.startswith('{') and body.endswith('}')):
                return False
            terms = body[1:-1].split('&&')
            got = []
            for t in terms:
                mt = re.fullmatch(r'self\.(\w+)==' + re.escape(o) + r'\.(\w+)', t) or re.fullmatch(re.escape(o) + r'\.(\w+)==self\.(\w+)', t)
                if not mt or mt.group(1) != mt.group(2):
                    return False
                got.append(mt.group(1))
            return sorted(got) == fields
        if mm['name'] != 'clone' or len(ins) != 1:
            return False
        mb = re.fullmatch(r'\{(?:Self|' + re.escape(sname) + r')\{(.*?),?\}\}', body)
        if not mb:
            return False
        got = []
        for t in mb.group(1).split(','):
            mt = re.fullmatch(r'(\w+):self\.(\w+)(?:\.clone\(\))?', t)
            if not mt or mt.group(1) != mt.group(2):
                return False
            got.append(mt.group(1))
        return sorted(got) == fields

    def _from_impl_like_derive(self, src, m, it):
        """(enum, variant, X) when `it` is `impl From<X> for Enum` whose only method is `fn from(p: X) -> Self { Enum::V(p) }` (or
        `Self::V(p)`) and V is a one-field tuple variant of type X of an enum defined in the same file; else None"""
        mt = re.fullmatch(r'From\s*<\s*(.+?)\s*>', (it.get('trait') or '').strip())
        if not mt or len(it['methods']) != 1 or it['methods'][0]['name'] != 'from' or it.get('types') or it.get('consts'):
            return None
        xty = re.sub(r'\s+', '', mt.group(1))
        ename = re.sub(r'\s+', '', it.get('self_ty') or '')
        mm = it['methods'][0]
        ins = mm['sig']['inputs']
        if len(ins) != 1 or re.sub(r'\s+', '', ins[0].get('ty') or '') != xty:
            return None
        pname = ins[0]['name']
        body = re.sub(r'\s+', '', re.sub(rb'//[^\n]*', b'', src[mm['block'][0]:mm['block'][1]]).decode())
        mb = re.fullmatch(r'\{(?:Self|' + re.escape(ename) + r')::(\w+)\(' + re.escape(pname) + r'\)\}', body)
        if not mb:
            return None
        path = os.path.join(REPO, m['file'])
        en = next((i for i in self.index[path]['items'] if i['kind'] == 'enum' and i['name'] == ename), None)
        if en is None:
            return None
        v = next((v for v in en['variants'] if v['name'] == mb.group(1)), None)
        if v is None or len(v['fields']['fields']) != 1 or re.sub(r'\s+', '', v['fields']['fields'][0]['ty']) != xty:
            return None
        if any(a['path'] == 'from' for a in v['fields']['fields'][0]['attrs']):
            return None   # thiserror would generate the impl as well: not valid Rust anyway
        return ename, mb.group(1), xty

    def _emit_trait(self, out, src, m, modpath, it, reach):
        if (modpath, it['name']) in self.vc.skips:
            return
        tname = it['name']
        fns = [x for x in it['items'] if x['kind'] == 'fn']
        if fns and not any((modpath, f'{tname}::{x["name"]}') in self.vc.fns for x in fns):
            self.uncontracted.append({'mod': modpath, 'name': tname, 'file': m['file'], 'kind': 'trait'})
            return
        head = src[it['start_no_attrs']:it['brace'][0][1]].decode()
        out.w('\n' + head + '\n')
        for x in it['items']:
            if x['kind'] == 'fn':
                self._emit_fn(out, src, m, modpath, x, f'{tname}::{x["name"]}', reach, indent='    ')
            else:
                out.w(src[x['span'][0]:x['span'][1]].decode() + '\n')
        out.w('}\n')

    def _note_uncontracted(self, modpath, name, m, it, src):
        if (modpath, name) in self.vc.skips:
            return
        body = src[it['span'][0]:it['span'][1]].decode()
        self.uncontracted.append({'mod': modpath, 'name': name, 'file': m['file'], 'kind': 'fn',
                                  'span': it['span'], 'text': body})

    # ------------------------------------------------------------------ functions (A1-A4, R2-R4)
    def _emit_fn(self, out, src, m, modpath, it, cname, reach, indent=''):
        key = (modpath, cname)
        c = self.vc.fns.get(key)
        if c is None:
            self._note_uncontracted(modpath, cname, m, it, src)
            return
        self.used_contracts.add(key)
        stub = 'stub' in c.opts
        vin = next((o.split('=')[1] for o in c.opts if o.startswith('verified-in=')), None)
        shim_ref = next((o.split('=', 1)[1] for o in c.opts if o.startswith('shim=')), None)
        if shim_ref:
            # this function's contract must be the text the shim assumes for it: verifying the real body here
            # discharges that assumption for every world that uses the shim
            sfile, spath = shim_ref.split(':', 1)
            sreq, sens = shim_contract_text(os.path.join(VERIF, 'shim', sfile + '.rs'), spath)
            norm = lambda t: re.sub(r'\s+', ' ', re.sub(r'//[^\n]*', '', t)).strip().rstrip(',')
            if sreq is None:
                raise Inconclusive(f'{c.origin}: shim function {shim_ref} not found')
            if norm(sreq) != norm(c.requires) or norm(sens) != norm(c.ensures):
                raise Inconclusive(f'{c.origin}: contract of {cname} differs from the one assumed in shim/{sfile}.rs\n  shim: {norm(sreq)} | {norm(sens)}\n  here: {norm(c.requires)} | {norm(c.ensures)}')
            self.shim_discharged = getattr(self, 'shim_discharged', [])
            if not reach and not stub:
                self.shim_discharged.append({'shim': shim_ref, 'function': f'{modpath}::{cname}', 'source': m.get('registry', m.get('file')),
                                             'assumed_in_shim': shim_is_external(os.path.join(VERIF, 'shim', sfile + '.rs'), spath)})
        if stub and vin:
            # callee verified in another world under the same contract text
            other = World(vin).vc.fns.get(key)
            norm = lambda t: re.sub(r'\s+', ' ', re.sub(r'//[^\n]*', '', t)).strip().rstrip(',')
            if other is None or 'stub' in other.opts:
                raise Inconclusive(f'{c.origin}: {cname} is not verified in world {vin}')
            if norm(other.ensures) != norm(c.ensures) or norm(other.requires) != norm(c.requires):
                raise Inconclusive(f'{c.origin}: contract of {cname} differs from the one verified in world {vin}')
        elif stub:
            body_sha = sha(re.sub(rb'\s+', b' ', src[it['span'][0]:it['span'][1]]))[:16]
            pin = next((o.split('=')[1] for o in c.opts if o.startswith('pin=')), None)
            self.stubs.append({'mod': modpath, 'name': cname, 'file': m.get('registry', m['file']), 'sha': body_sha, 'pin': pin, 'contract': os.path.relpath(c.origin, VERIF)})
            if pin is None:
                raise Inconclusive(f'{c.origin}: stub {cname} has no pin=<sha> option (current body: pin={body_sha})')
            if pin != body_sha:
                # the assumed contract was written for another body: this function, and whatever depends on it, is undecided
                self.degraded[f'{modpath}::{cname}'] = (f'lost anchor: the body changed (pin {pin}, now {body_sha}); its contract is ASSUMED, '
                                                       f'not verified, and was written for the pinned body')
        variants = [('main', None)]
        if reach and not stub and 'noreach' not in c.opts:
            variants = [('stub', None), ('reach', None)]
        if not reach:
            for pname in c.probes:
                variants.append(('probe', pname))
        forced = f'{modpath}::{cname}' in self.force_stub
        if getattr(self, 'unmodelled_handles', None) and not stub:
            body_txt = src[it['span'][0]:it['span'][1]].decode('utf-8', 'ignore')
            hit = [h for h in self.unmodelled_handles if re.search(r'\b' + re.escape(h) + r'\b', body_txt)]
            if hit:
                forced = True
                self.degraded[f'{modpath}::{cname}'] = 'touches storage outside the abstract store: ' + ', '.join(sorted(hit))
        if forced and not stub:
            self.degraded.setdefault(f'{modpath}::{cname}', 'does not type-check in the verified subset')
            variants = [('main', None)]
        for variant, pname in variants:
            mark = out.pos(), len(out.parts), len(self.fnmap)
            try:
                self._emit_fn_variant(out, src, m, modpath, it, cname, c, variant, pname, stub or forced)
            except Inconclusive as e:
                if stub or forced or 'lost anchor' not in str(e) and 'unsupported' not in str(e):
                    raise
                # a per-function anchor is lost: fall back to the assumed contract for this function only
                del out.parts[mark[1]:]
                out.n = mark[0]
                del self.fnmap[mark[2]:]
                self.degraded[f'{modpath}::{cname}'] = str(e)
                self._emit_fn_variant(out, src, m, modpath, it, cname, c, 'main', None, True)
                break

    def _emit_fn_variant(self, out, src, m, modpath, it, cname, c, variant, pname, is_stub):
        sig = it['sig']
        bodiless = it.get('has_body') is False
        if bodiless:
            if variant not in ('main', 'stub'):
                return
            block_s = block_e = it['semi'][0]
        else:
            block_s, block_e = it['block']
        sig_start = it['start_no_attrs']
        edits = []
        # A1: name the return value
        if sig['output'] is not None:
            ts, te = sig['output']['ty_span']
            rn = c.ret or 'r'
            edits.append((ts, te, f'({rn}: {sig["output"]["ty"]})'.encode()))
        # R2: impl Into<String> -> impl IntoStr
        for a in sig['inputs']:
            itr = a.get('impl_trait')
            if itr and re.sub(r'\s+', '', itr['text']) == 'implInto<String>':
                edits.append((itr['span'][0], itr['span'][1], b'impl IntoStr'))
                self.counters['R2'] += 1
        # rename for twins
        suffix = {'main': '', 'stub': '', 'reach': '__reach', 'probe': f'__probe_{pname}'}[variant]
        if suffix:
            edits.append((sig['ident_span'][1], sig['ident_span'][1], suffix.encode()))
        head = apply_edits(src, sig_start, block_s, edits).decode()
        for old, new in c.sig_subst:
            if old not in head:
                raise Inconclusive(f'lost anchor: signature text {old!r} not found in {cname}')
            head = head.replace(old, new)
        if 'R11' in c.opts:
            # R11: `mut self` (a by-value receiver bound mutably) is outside Verus's subset: the receiver is taken as `self`
            # and moved into a mutable local at the start of the body, which the body then uses instead of `self`
            if not re.search(r'\(\s*mut self\b', head):
                raise Inconclusive(f'lost anchor: {cname} has no `mut self` receiver (option R11)')
            head = re.sub(r'\(\s*mut self\b', '(self', head, count=1)
            self.counters['R11'] = self.counters.get('R11', 0) + 1
        # contract text
        req = c.requires
        ens = c.ensures
        if variant == 'probe':
            carve = c.carves.get(pname)
            if carve is None:
                raise Inconclusive(f'{c.origin}: probe {pname} has no carve')
            req = req.replace(f'/*carve:{pname}*/', '/*probe*/')
            req = re.sub(r'!\(\s*' + re.escape(carve.strip()) + r'\s*\)', '(' + c.probes[pname].strip() + ')', req)
        if variant == 'reach':
            ens = '    false,'
        contract = ''
        if req.strip():
            contract += 'requires\n' + req.rstrip().rstrip(',') + ',\n'
        label_spans = []
        start_fn = out.pos()
        ext = (is_stub or variant == 'stub') and not bodiless
        attrs = ''
        if ext:
            attrs = '#[verifier::external_body]\n'
        for o in c.opts:
            if o.startswith('rlimit='):
                attrs += f'#[verifier::rlimit({o.split("=")[1]})]\n'
            if o == 'spinoff':
                attrs += '#[verifier::spinoff_prover]\n'
        out.w('\n' + attrs)
        out.w(head.rstrip() + '\n')
        out.w(contract)
        if ens.strip():
            out.w('ensures\n')
            # record label regions
            cur_labels = []
            cur_start = None
            for line in (ens.rstrip().rstrip(',') + ',').split('\n'):
                found = labels_in(line) if line.strip().startswith('//') else []
                if found:
                    for cl in cur_labels:
                        label_spans.append((cl, cur_start, out.pos()))
                    cur_labels = found
                    cur_start = out.pos()
                out.w(line + '\n')
            for cl in cur_labels:
                label_spans.append((cl, cur_start, out.pos()))
        if c.decreases.strip():
            out.w('decreases ' + c.decreases.strip() + '\n')
        self.counters['A1'] += 1 if variant == 'main' else 0
        body_start = out.pos()
        inner_labels = []
        ghost_spans = []
        guards_left = 0
        if bodiless:
            out.w(';\n')
        elif ext:
            out.w('{ unimplemented!() }\n')
        else:
            body, inner = self._body(src, it, c, cname)
            base = out.pos()
            out.w(body.decode())
            out.w('\n')
            inner_labels = [(lab, base + s, base + e) for lab, s, e in inner]
            ghost_spans = [[base + a, base + b] for a, b in self._ghost]
            guards_left = getattr(self, '_guards_left', 0)
        end_fn = out.pos()
        mname = re.search(r'\bfn\s+(\w+)', head)
        out_name = mname.group(1) if mname else cname.split('::')[-1]
        self.fnmap.append({
            'world': self.name, 'mod': modpath, 'name': cname, 'variant': variant, 'probe': pname,
            'out_name': out_name,
            'external_body': ext,
            'file': m['file'], 'src_span': it['span'],
            'src_sha256': sha(src[it['span'][0]:it['span'][1]]),
            'out_span': [start_fn, end_fn], 'body_span': [body_start, end_fn],
            'labels': [{'label': l, 'span': [s, e]} for l, s, e in label_spans],
            'inner_labels': [{'label': l, 'span': [s, e]} for l, s, e in inner_labels],
            'ghost_spans': ghost_spans,
            'guards_left': guards_left,
            'contract': os.path.relpath(c.origin, VERIF),
            'shape': self._shape(src, it),
            'shape_pin': next((o.split('=')[1] for o in c.opts if o.startswith('shape=')), None),
            'dropped_hints': self.dropped_hints.get(cname, []),
        })

    @staticmethod
    def _shape(src, it):
        """hash of the function's text with the bodies of its closures cut out (whitespace-normalised): when it equals the
        value pinned in the contract file, everything around the closures is the text the closure contracts were written for"""
        s0, e0 = it['span']
        cuts = sorted((cl['body'][0], cl['body'][1]) for cl in it.get('closures', []))
        out = b''
        pos = s0
        for a, b in cuts:
            if a < pos:
                continue   # nested closure inside an already cut body
            out += src[pos:a] + b'@'
            pos = b
        out += src[pos:e0]
        return sha(re.sub(rb'\s+', b' ', out))[:16]

    def _body(self, src, it, c, cname):
        block_s, block_e = it['block']
        edits = []
        # conditional compilation inside a body: the verified text is one expansion, the compiled contract may be another
        plain = re.sub(rb'//[^\n]*', b'', src[block_s:block_e])
        if re.search(rb'#\s*\[\s*cfg(_attr)?\s*\(|\bcfg!\s*\(', plain):
            raise Inconclusive(f'unsupported: conditional compilation (#[cfg(..)] / cfg!(..)) inside the body of {cname}')
        # A2 loops
        for n, lc in c.loops.items():
            if n >= len(it['loops']):
                raise Inconclusive(f'lost anchor: {cname} has {len(it["loops"])} loops, contract names loop {n}')
            lp = it['loops'][n]
            if lc['iter']:
                if lp['kind'] != 'for':
                    raise Inconclusive(f'lost anchor: loop {n} of {cname} is not a for loop')
                edits.append((lp['expr'][0], lp['expr'][0], f'{lc["iter"]}: '.encode()))
            inv_text, body_start, body_end = lc['text'], '', ''
            mm = re.split(r'^\s*@(body-start|body-end)\s*:?\s*$', lc['text'], flags=re.M)
            if len(mm) > 1:
                inv_text = mm[0]
                for k in range(1, len(mm), 2):
                    if mm[k] == 'body-start':
                        body_start = mm[k + 1]
                    else:
                        body_end = mm[k + 1]
            edits.append((lp['body'][0], lp['body'][0], ('\n' + GHOST_OPEN + inv_text + GHOST_CLOSE + '\n').encode()))
            if body_start.strip():
                edits.append((lp['body'][0] + 1, lp['body'][0] + 1, ('\n' + GHOST_OPEN + body_start + GHOST_CLOSE + '\n').encode()))
            if body_end.strip():
                edits.append((lp['body'][1] - 1, lp['body'][1] - 1, ('\n' + GHOST_OPEN + body_end + GHOST_CLOSE + '\n').encode()))
            self.counters['A2'] += 1
        unl = [l['ordinal'] for l in it['loops'] if l['ordinal'] not in c.loops]
        if unl:
            raise Inconclusive(f'unsupported: loop(s) {unl} of {cname} have no invariant in the contract file')
        # A3 closures
        for n, text in c.closures.items():
            if n >= len(it['closures']):
                raise Inconclusive(f'lost anchor: {cname} has {len(it["closures"])} closures, contract names closure {n}')
            cl = it['closures'][n]
            # Verus rejects `_` as a closure parameter: give it a name (never used)
            ptxt = src[cl['or1'][1]:cl['or2'][0]].decode()
            if n in c.closure_params:
                # type ascription on the closure parameters (needed when the expected type is generic)
                edits.append((cl['or1'][1], cl['or2'][0], c.closure_params[n].encode()))
            elif ptxt.strip() == '_':
                edits.append((cl['or1'][1], cl['or2'][0], b'_vf_unused'))
            s = cl['or2'][1]
            e = cl['body'][0]
            if cl['body_is_block']:
                edits.append((s, e, (' ' + text.strip() + ' ').encode()))
            else:
                edits.append((s, e, (' ' + text.strip() + ' { ').encode()))
                edits.append((cl['body'][1], cl['body'][1], b' }'))
            self.counters['A3'] += 1
        # A4 hints
        for where, n, text in c.hints:
            if where == 'start':
                pos = block_s + 1
            elif where == 'end':
                pos = block_e - 1
            else:
                if isinstance(n, str):
                    want = re.sub(r'\s+', ' ', n)
                    pool = it['all_stmts'] if where.startswith('in-') else it['stmts']
                    hits = [x for x in pool
                            if re.sub(r'\s+', ' ', src[x['span'][0]:x['span'][1]].decode()).startswith(want)]
                    if len(hits) != 1:
                        # a proof hint lost its anchor: drop it.  If the function then still verifies nothing is lost;
                        # if it does not, the run is inconclusive for this function (never a verdict).
                        self.dropped_hints.setdefault(cname, []).append(want)
                        continue
                    st = hits[0]
                elif n >= len(it['stmts']):
                    raise Inconclusive(f'lost anchor: {cname} has {len(it["stmts"])} statements, hint names {n}')
                else:
                    st = it['stmts'][n]
                pos = st['span'][1] if where in ('after', 'in-after') else st['span'][0]
                if where in ('after', 'in-after'):
                    # include a trailing `;` if the span stopped short of it
                    j = pos
                    while j < block_e and src[j:j + 1] in b' \t':
                        j += 1
                    if src[j:j + 1] == b';':
                        pos = j + 1
            edits.append((pos, pos, ('\n' + GHOST_OPEN + text + GHOST_CLOSE + '\n').encode()))
            self.counters['A4'] += 1
        # R7 bind the receiver of an iterator method call so that a ghost hint can name it
        for meth, n, text in c.binds:
            calls = [cl for cl in it['calls'] if cl['kind'] == 'method' and cl['method'] == meth]
            if n >= len(calls):
                raise Inconclusive(f'lost anchor: {cname} has {len(calls)} calls of .{meth}(), contract binds #{n}')
            cl = calls[n]
            rs, re_ = cl['receiver']
            cs, ce = cl['span']
            ms = cl['method_span'][0]
            # `RECV . meth(args)`  ->  `{ let mut vf_it = RECV; let ghost vf_rem = vf_it.remaining(); let vf_r = vf_it.meth(args); proof {..} vf_r }`
            edits.append((rs, rs, b'{ let mut vf_it = '))
            # the `.` between receiver and method name
            dot = src.rfind(b'.', re_, ms + 1)
            if dot < 0:
                raise Inconclusive(f'lost anchor: cannot find the method dot of .{meth}() in {cname}')
            edits.append((re_, dot + 1, b'; let ghost vf_rem = vf_it.remaining(); let vf_r = vf_it.'))
            edits.append((ce, ce, ('; proof {\n' + GHOST_OPEN + text + GHOST_CLOSE + '\n} vf_r }').encode()))
            self.counters['R7'] += 1
        # R10 match guards followed by a final wildcard arm: `P if G => A, _ => B`  ->  `P => { if G { A } else { B } }, _ => B`.
        # Same evaluation order and values; needed because Verus does not resolve `&mut` borrows on the path where
        # a guard fails and the wildcard arm leaves the function (a postcondition about final(..) then fails spuriously).
        guards_left = 0
        for mt in it.get('matches', []):
            arms = mt['arms']
            for k in range(len(arms)):
                a = arms[k]
                if a['guard'] and not (k + 1 == len(arms) - 1 and arms[k + 1]['wild'] and not arms[k + 1]['guard']):
                    guards_left += 1
            for k in range(len(arms) - 1):
                a, b = arms[k], arms[k + 1]
                if a['guard'] and k + 1 == len(arms) - 1 and b['wild'] and not b['guard']:
                    g_txt = src[a['guard'][0]:a['guard'][1]].decode()
                    b_txt = src[b['body'][0]:b['body'][1]].decode()
                    edits.append((a['pat'][1], a['arrow'][0], b' '))
                    edits.append((a['body'][0], a['body'][0], ('{ if ' + g_txt + ' { ').encode()))
                    edits.append((a['body'][1], a['body'][1], (' } else { ' + b_txt + ' } }').encode()))
                    self.counters['R10'] = self.counters.get('R10', 0) + 1
        self._guards_left = guards_left
        # R3 format!
        for mc in it['macros']:
            if mc['name'] == 'format' and mc['first_lit']:
                pieces = split_format(mc['first_lit']['text'])
                if pieces is None:
                    continue
                inner = src[mc['open'][1]:mc['close'][0]].decode()
                args = split_top_commas(inner)[1:]
                pos_i = 0
                parts = []
                ok = True
                for kind, val in pieces:
                    if kind == 'lit':
                        parts.append(rust_str(val))
                    elif kind == 'dbg':
                        if val == '':
                            if pos_i >= len(args):
                                ok = False
                                break
                            a = args[pos_i]
                            pos_i += 1
                        elif val.isdigit():
                            a = args[int(val)]
                        else:
                            a = val
                        parts.append('crate::std_ext::DebugOf(&(' + a + '))')
                    else:
                        if val == '':
                            if pos_i >= len(args):
                                ok = False
                                break
                            parts.append('(' + args[pos_i] + ')')
                            pos_i += 1
                        elif val.isdigit():
                            if int(val) >= len(args):
                                ok = False
                                break
                            parts.append('(' + args[int(val)] + ')')
                        else:
                            parts.append(val)
                if not ok:
                    continue
                edits.append((mc['span'][0], mc['span'][1], ('sfmt!(' + ', '.join(parts) + ')').encode()))
                self.counters['R3'] += 1
        # R4 Box<dyn Fn> (contract-listed textual substitutions, counted)
        body = apply_edits(src, block_s, block_e, edits)
        for old, new in c.body_subst:
            if old.encode() not in body:
                raise Inconclusive(f'lost anchor: body text {old!r} not found in {cname}')
            self.counters['R4'] += body.count(old.encode())
            body = body.replace(old.encode(), new.encode())
        if 'R11' in c.opts:
            inner = body[1:] if body[:1] == b'{' else body
            inner = re.sub(rb'(?<![\w.:])self\b', b'vf_self', inner)
            body = b'{ let mut vf_self = self;' + inner
        for o in c.opts:
            if o == 'R4':
                n0 = body.count(b'Box::new(')
                body = body.replace(b'Box::new(', b'DynPred::new(')
                self.counters['R4'] += n0
        # labels inside inserted text (closure contracts, loop invariants, hints); a comment may
        # carry several labels; the region runs to the next blank line / next label comment
        txt = body.decode()
        marks = []
        for ml in re.finditer(r'(?://|/\*)((?:\s*\[[A-Za-z0-9_.\-:#@]+\])+)', txt):
            labs = re.findall(r'\[([A-Za-z0-9_.\-:#@]+)\]', ml.group(1))
            marks.append((ml.start(), labs))
        res = []
        for i, (cs, labs) in enumerate(marks):
            nxt = txt.find('\n\n', cs)
            e_char = nxt if nxt != -1 else len(txt)
            if i + 1 < len(marks):
                e_char = min(e_char, marks[i + 1][0])
            for lab in labs:
                res.append((lab, len(txt[:cs].encode()), len(txt[:e_char].encode())))
        # spans of ghost text inserted by the contract (hints, invariants): a failure located there is a
        # broken proof step, not an executable panic
        self._ghost = []
        pos = 0
        while True:
            a = body.find(GHOST_OPEN.encode(), pos)
            if a < 0:
                break
            b = body.find(GHOST_CLOSE.encode(), a)
            if b < 0:
                break
            self._ghost.append((a, b))
            pos = b + 1
        return body, res


def shim_is_external(path, fpath):
    """True when the shim function is an `external_body` one (its contract is ASSUMED); False when the shim carries a model body
    that Verus verifies against the contract"""
    try:
        t = open(path).read()
    except OSError:
        return False
    name = fpath.split('::')[-1]
    for mm in re.finditer(r'\bfn\s+' + re.escape(name) + r'\b', t):
        pre = t[max(0, mm.start() - 160):mm.start()]
        if 'external_body' in pre.split('}')[-1]:
            return True
    return False


def shim_contract_text(path, fpath):
    """(requires, ensures) text of `fn <name>` (optionally `Type::name`) in a shim file; the function must be an
    `external_body` one whose body is `{ unimplemented!() }`"""
    try:
        t = open(path).read()
    except OSError:
        return None, None
    segs = fpath.split('::')
    name = segs[-1]
    region = t
    if len(segs) > 1:
        best = None
        for mi in re.finditer(r'\bimpl\b[^{;]*\{', t):
            head = mi.group(0)
            # inherent impl of the type (no `for`), or `impl Trait for Type`
            tgt = head.split(' for ')[-1] if ' for ' in head else head
            if re.search(r'\b' + re.escape(segs[-2]) + r'\b', tgt) and (len(segs) < 3 or re.search(r'\b' + re.escape(segs[-3]) + r'\b', head)):
                i = mi.end()
                d = 1
                while i < len(t) and d:
                    d += {'{': 1, '}': -1}.get(t[i], 0)
                    i += 1
                blk = t[mi.end():i]
                if re.search(r'\bfn\s+' + re.escape(name) + r'\b', blk):
                    best = blk
                    break
        if best is None:
            return None, None
        region = best
    hits = list(re.finditer(r'\bfn\s+' + re.escape(name) + r'\b', region))
    if len(hits) != 1:
        return None, None
    rest = region[hits[0].end():]
    end = rest.find('{ unimplemented!() }')
    nxt = re.search(r'\bfn\s+\w+', rest)
    if end < 0 or (nxt and nxt.start() < end):
        # a shim function with a (model) body: its contract must not contain braces; it ends at the body's `{`
        end = rest.find('{')
        if end < 0:
            return None, None
    head = rest[:end]
    mr = re.search(r'(?<![.\w])requires\b', head)
    me = re.search(r'(?<![.\w])ensures\b(?!\()', head)
    req = ens = ''
    if me:
        ens = head[me.end():]
        if mr and mr.start() < me.start():
            req = head[mr.end():me.start()]
    elif mr:
        req = head[mr.end():]
    return req, ens


def assemble(world_name, features=(), outdir=None, force_stub=()):
    w = World(world_name, features, force_stub)
    outdir = outdir or os.path.join(os.environ.get('VERIF_WORK', os.path.join(VERIF, 'work')), world_name + ('-' + '-'.join(sorted(features)) if features else ''))
    os.makedirs(outdir, exist_ok=True)
    main = w.build(reach=False)
    fmap_main = w.fnmap
    counters = dict(w.counters)
    w2 = World(world_name, features, set(force_stub) | set(w.degraded))
    reach = w2.build(reach=True)
    open(os.path.join(outdir, 'unit.rs'), 'wb').write(main)
    open(os.path.join(outdir, 'unit_reach.rs'), 'wb').write(reach)
    meta = {'world': world_name, 'features': sorted(features), 'fns': fmap_main, 'reach_fns': w2.fnmap,
            'degraded': w.degraded,
            'counters': counters, 'uncontracted': w.uncontracted, 'stubs': w.stubs, 'lemma_twins': w2.lemma_twins,
            'shim_discharged': getattr(w, 'shim_discharged', []), 'shim_blocks': getattr(w, 'shim_blocks', []), 'registry_crates': getattr(w, 'registry_crates', {}),
            'generated': {'type_urls': getattr(w, 'generated_type_urls', None), 'wire_compat': getattr(w, 'generated_wire', None), 'storage_keys': getattr(w, 'generated_storage_keys', None), 'storage_keys_same': getattr(w, 'generated_storage_keys_same', None)},
            'unit_sha256': sha(main)}
    json.dump(meta, open(os.path.join(outdir, 'map.json'), 'w'), indent=1)
    return outdir, meta


if __name__ == '__main__':
    try:
        d, meta = assemble(sys.argv[1], tuple(sys.argv[2:]))
        print(d, len(meta['fns']), 'fns', meta['counters'])
    except Inconclusive as e:
        print('INCONCLUSIVE:', e)
        sys.exit(2)
