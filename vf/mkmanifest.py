from . import manifest, manifest_table  # noqa: F401
manifest.build()
print('MANIFEST.json written:', len(manifest.CLAIMED), 'claimed')
