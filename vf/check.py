"""Property checks: ./check <property-id> [--tier quick|thorough]

exit 0  every obligation of the property discharged (known findings printed as KNOWN-FINDING)
exit 1  a labelled obligation of the property failed -> VIOLATION line + replay file
exit 2  inconclusive (lost anchor, unsupported construct, type error, rlimit, vacuity guard red)
"""
import glob
import hashlib
import json
import os
import re
import sys
import time
from concurrent.futures import ThreadPoolExecutor

from .assemble import assemble, Inconclusive, VERIF, REPO, World
from .run import run_world, match_fn_time

KNOWN = os.path.join(VERIF, 'known_findings.json')
PROPS = [json.loads(l) for l in open(os.path.join(VERIF, 'properties.jsonl'))]
PROP_IDS = [p['id'] for p in PROPS]
NOPANIC_PROP = 'C16'


def all_worlds():
    out = []
    for wj in sorted(glob.glob(os.path.join(VERIF, 'contracts', '*', 'world.json'))):
        cfg = json.load(open(wj))
        for feats in cfg.get('variants', [[]]):
            out.append((cfg['name'], tuple(feats), cfg))
    return out


def label_prop(label):
    m = re.match(r'(C\d\d)\.', label)
    return m.group(1) if m else None


def world_labels(name, feats):
    """labels present in a world's contract files (cheap: no Verus)"""
    w = World(name, feats)
    labs = set()
    from .assemble import labels_in
    for c in w.vc.fns.values():
        for txt in [c.ensures] + [l['text'] for l in c.loops.values()] + [h[2] for h in c.hints] + list(c.closures.values()):
            labs.update(labels_in(txt))
    for _, text, _ in w.vc.raws:
        labs.update(labels_in(text))
    for sp in w.cfg.get('spec', []):
        for f in sp['files']:
            f = f['file'] if isinstance(f, dict) else f
            labs.update(labels_in(open(os.path.join(w.dir, f)).read()))
    if 'type_urls' in w.cfg:
        labs.add(w.cfg['type_urls'].get('label', 'C20') + '.type-urls')
    for p_ in (w.cfg.get('serde_attrs') or {}).get('labels', []):
        labs.add(p_ + '.wire-names')
    for p_ in (w.cfg.get('storage_keys_same') or {}).get('labels', []):
        labs.add(p_ + '.legacy-storage-key')
    for p_ in (w.cfg.get('storage_keys') or {}).get('labels', []):
        labs.add(p_ + '.storage-keys-distinct')
    for pf in w.vc.protofields:
        labs.add(pf['prop'] + '.fields')
    return labs, w


def scan_trusted(unit_text):
    """names of everything assumed rather than proved in the generated unit"""
    tb = []
    for m in re.finditer(r'#\[verifier::external_body\]\s*(?:#\[[^\]]*\]\s*)*(?:pub\s+)?(?:const\s+)?(?:fn|struct)\s+(\w+)', unit_text):
        tb.append('external_body ' + m.group(1))
    for m in re.finditer(r'assume_specification\s*(?:<[^>]*>)?\s*\[\s*([^\]]+?)\s*\]', unit_text):
        tb.append('assume_specification ' + re.sub(r'\s+', '', m.group(1)))
    for m in re.finditer(r'\baxiom fn\s+(\w+)', unit_text):
        tb.append('axiom ' + m.group(1))
    for m in re.finditer(r'\buninterp spec fn\s+(\w+)', unit_text):
        tb.append('uninterp ' + m.group(1))
    return tb


def stray_assumes(unit_text):
    # anything after the shim section must not contain assume/admit
    i = unit_text.find('// ---- spec:')
    if i < 0:
        i = unit_text.find('// ---- extracted:')
    body = unit_text[i:] if i >= 0 else unit_text
    return re.findall(r'\b(assume|admit)\s*\(', body)


def load_known():
    if os.path.exists(KNOWN):
        return json.load(open(KNOWN))
    return {'findings': [], 'fixed': []}


def safe(s):
    return re.sub(r'[^A-Za-z0-9_.-]+', '_', s)


def check(pid, tier='quick', seed=0, shared=None, write_evidence=True, quiet=False):
    t0 = time.time()
    if shared is None and not os.environ.get('VERIF_WORK_FIXED'):
        # one work directory per property so that checks of different properties can run concurrently
        base = os.environ.get('VERIF_WORK', os.path.join(VERIF, 'work'))
        os.environ['VERIF_WORK'] = os.path.join(base, pid)
        os.environ['VERIF_WORK_FIXED'] = '1'
    known = load_known()
    open_findings = [f for f in known.get('findings', []) if f['property'] == pid and f.get('status', 'open') == 'open']
    inconclusive = []
    # 1. which worlds carry obligations of this property
    targets = []
    for name, feats, cfg in all_worlds():
        try:
            labs, _ = world_labels(name, feats)
        except Inconclusive as e:
            inconclusive.append(f'{name}: {e}')
            continue
        has = any(label_prop(l) == pid for l in labs)
        if pid == NOPANIC_PROP and cfg.get('nopanic', False):
            has = True
        if has:
            targets.append((name, feats, cfg))
    if not targets and not inconclusive:
        inconclusive.append(f'no world carries an obligation labelled {pid}')
    results = []
    if shared is not None:
        results = [shared[(t[0], t[1])] for t in targets if (t[0], t[1]) in shared]
    elif not inconclusive:
        nthreads = max(2, 16 // max(1, len(targets)))
        extra = []
        def go(t):
            try:
                return run_world(t[0], t[1], threads=nthreads, verus_extra=extra)
            except Inconclusive as e:
                return {'inconclusive': str(e), 'world': t[0]}
        with ThreadPoolExecutor(len(targets)) as ex:
            results = list(ex.map(go, targets))
    obligations = []
    violations = []
    known_hits = []
    functions = []
    trusted = set()
    tb_max = {}
    dep_external = set()
    dep_verified = []
    unverified = set()
    solver_us_box = [0]
    counters = {}
    generated = {}
    solver_us = 0
    twins = 0
    for r in results:
        if 'inconclusive' in r:
            inconclusive.append(f'{r["world"]}: {r["inconclusive"]}')
            continue
        meta, cm, cr = r['meta'], r['cm'], r['cr']
        wname = meta['world'] + ('+' + '+'.join(meta['features']) if meta['features'] else '')
        if cm['compile_errors']:
            inconclusive.append(f'{wname}: generated unit does not type-check: ' + cm['compile_errors'][0][:1500])
            continue
        if cr['compile_errors']:
            inconclusive.append(f'{wname}: vacuity unit does not type-check: ' + cr['compile_errors'][0][:1500])
            continue
        unit_text = open(os.path.join(r['outdir'], 'unit.rs'), encoding='utf-8').read()
        if stray_assumes(unit_text):
            inconclusive.append(f'{wname}: assume/admit outside the shim')
            continue
        tb_list = scan_trusted(unit_text)
        trusted.update(tb_list)
        if not meta['world'].startswith('deps_'):
            for t_ in set(tb_list):
                tb_max[t_] = max(tb_max.get(t_, 0), tb_list.count(t_))
        for sd in meta.get('shim_discharged', []):
            if sd.get('assumed_in_shim'):
                dep_external.add(sd['shim'].split('::')[-1].split(':')[-1])
            dep_verified.append(f"shim/{sd['shim'].replace(':', '.rs ', 1)} == contract verified on {sd['source']} ({sd['function']}, world {wname})")
        if any((meta.get('generated') or {}).values()):
            generated[wname] = meta['generated']
        for sb in meta.get('shim_blocks', []):
            dep_verified.append(f"shim/{sb.replace(': ', '.rs ', 1)} == spec block the real impl is verified against (world {wname}, {', '.join(f'{k}-{v}' for k, v in meta.get('registry_crates', {}).items())})")
        for k, v in meta['counters'].items():
            counters[k] = counters.get(k, 0) + v
        # functions degraded to their assumed contract (lost anchor / no longer in the verified subset)
        degraded = meta.get('degraded', {})
        deg_dependents = set()
        if degraded:
            names = {k.split('::')[-1] for k in degraded}
            for fn in meta['fns']:
                fqn = f'{fn["mod"]}::{fn["name"]}'
                if fqn in degraded:
                    deg_dependents.add(fqn)
                    continue
                try:
                    body = open(os.path.join(REPO, fn['file']), 'rb').read()[fn['src_span'][0]:fn['src_span'][1]].decode('utf-8', 'ignore')
                except Exception:
                    body = ''
                if any(re.search(r'\b' + re.escape(n) + r'\b', body) for n in names):
                    deg_dependents.add(fqn)
        for st in meta.get('stubs', []):
            unverified.add(f"{st['mod']}::{st['name']} ({st['file']}) – contract assumed, pinned to body {st['pin']}")
        # --- labelled lemmas (proof fns in spec / raw text): an obligation each
        lemma_names = set(mm.group(2) for mm in re.finditer(r'//((?:\s*\[C\d\d\.[A-Za-z0-9_.\-]+\])+)[^\n]*\n(?:\s*(?:///[^\n]*|#\[[^\n]*\])\n)*\s*(?:pub\s+)?(?:broadcast\s+)?proof fn\s+(\w+)', unit_text))
        lemma_fail = {}
        lemma_viol = []
        for ml in re.finditer(r'//((?:\s*\[C\d\d\.[A-Za-z0-9_.\-]+\])+)[^\n]*\n(?:\s*(?:///[^\n]*|#\[[^\n]*\])\n)*\s*(?:pub\s+)?(?:broadcast\s+)?proof fn\s+(\w+)', unit_text):
            fname = ml.group(2)
            mine_l = [x for x in re.findall(r'\[(C\d\d\.[A-Za-z0-9_.\-]+)\]', ml.group(1)) if label_prop(x) == pid]
            if not mine_l:
                continue
            lab = mine_l[0]
            hits = [v for k, v in cm['times'].items() if k.split('::')[-1] == fname]
            ok = len(hits) == 1 and hits[0].get('success') is True
            if len(hits) != 1:
                inconclusive.append(f'{wname}: lemma {fname} for [{lab}] not found in the Verus breakdown')
                continue
            solver_us_box[0] += hits[0].get('time_micros') or 0
            if not ok and '.legacy-storage-key-' in lab:
                # an assumption of this world's store MODEL (two layouts share one key) does not hold on this tree: everything the
                # model proves about the migration is undecided; the bounded stand-in runs the real migration on a pre-upgrade
                # store written under the deployed keys
                inconclusive.append(f'{wname}: the store model assumes that {fname} holds ([{lab}]: a legacy handle has the namespace of its '
                                    f'successor); it does not on this tree, so the migration proofs are undecided')
                continue
            ob = {'id': f'{wname}:lemma {fname}:{lab}', 'label': lab, 'function': f'lemma {fname}', 'discharged': ok}
            obligations.append(ob)
            functions.append({'function': f'lemma {fname}', 'world': wname, 'file': 'verif/contracts (spec)', 'smt_time_us': hits[0].get('time_micros'), 'rlimit': hits[0].get('rlimit')})
            if not ok:
                lemma_viol.append({'obligation': ob['id'], 'label': lab, 'function': f'lemma {fname}', 'world': wname, 'file': 'spec', 'src_span': [0, 0],
                                   'lemma': fname, 'verus': []})
        # --- vacuity twins: every reach twin must fail
        reach_failed = set()
        for f in cr['failures']:
            if f['fn_obj'] is not None and f['fn_obj']['variant'] == 'reach':
                reach_failed.add((f['fn_obj']['mod'], f['fn_obj']['name']))
        for rl in cr['rlimit']:
            inconclusive.append(f'{wname}: rlimit in vacuity unit: {rl["message"]}')
        # lemma twins: each `<lemma>__reach` must fail
        reach_unit_bytes = open(os.path.join(r['outdir'], 'unit_reach.rs'), 'rb').read()
        failed_lemma_twins = set()
        for f in cr['failures']:
            if f['fn_obj'] is None:
                pos = max([a for (a, b, prim, lab) in f['spans'] if prim] or [a for (a, b, prim, lab) in f['spans']])
                back = reach_unit_bytes[max(0, pos - 6000):pos].decode('utf-8', 'ignore')
                names = re.findall(r'proof fn\s+(\w+)__reach', back)
                if names:
                    failed_lemma_twins.add(names[-1])
        for lt in meta.get('lemma_twins', []):
            twins += 1
            if lt not in failed_lemma_twins:
                inconclusive.append(f'{wname}: vacuity guard red: lemma {lt} has contradictory hypotheses (its `ensures false` twin verifies)')
        for fn in meta['reach_fns']:
            if fn['variant'] != 'reach':
                continue
            twins += 1
            if (fn['mod'], fn['name']) not in reach_failed:
                inconclusive.append(f'{wname}: vacuity guard red: {fn["mod"]}::{fn["name"]} verifies `ensures false` '
                                    f'(contradictory precondition or unreachable exit)')
        # --- failures of the main unit
        fails_by_fn = {}
        unit_bytes = unit_text.encode('utf-8')
        for f in cm['failures']:
            if f['fn_obj'] is None:
                # a labelled lemma?  (its verdict comes from the lemma obligations above)
                pos = max([a for (a, b, prim, lab) in f['spans'] if prim] or [a for (a, b, prim, lab) in f['spans']])
                back = unit_bytes[max(0, pos - 4000):pos + 200].decode('utf-8', 'ignore')
                names = re.findall(r'proof fn\s+(\w+)', back)
                if names and names[-1] in lemma_names:
                    lemma_fail.setdefault(names[-1], []).append(f['rendered'])
                    continue
                inconclusive.append(f'{wname}: verification failure outside any extracted function: {f["message"]} (line {f["line"]})')
                continue
            fails_by_fn.setdefault((f['fn_obj']['mod'], f['fn_obj']['name'], f['fn_obj']['variant'], f['fn_obj'].get('probe')), []).append(f)
        for lv in lemma_viol:
            lv['verus'] = lemma_fail.get(lv['lemma'], [])[:3]
            violations.append(lv)
        # modularity: a caller is verified against the callee's CONTRACT.  When a contract clause of a callee no longer
        # holds, the panic-freedom of its callers was proved from a false premise: their nopanic obligations are undecided
        # (the bounded stand-in then looks for a panicking input on the real code)
        broken_callees = {}
        for (fm, fnm, fvar, fprobe), ffl in fails_by_fn.items():
            if fvar == 'main' and any(x['where'] == 'ensures' for x in ffl):
                broken_callees[fnm.split('::')[-1]] = f'{fm}::{fnm}'
        def _src_of(fn_):
            try:
                return open(os.path.join(REPO, fn_['file']), 'rb').read()[fn_['src_span'][0]:fn_['src_span'][1]].decode('utf-8', 'ignore')
            except Exception:
                return ''
        rl_fns = set()
        for rl in cm['rlimit']:
            hit = None
            if rl['span']:
                for fn in meta['fns']:
                    if fn['out_span'][0] <= rl['span'][0] < fn['out_span'][1]:
                        hit = fn
            rl_fns.add((hit['mod'], hit['name']) if hit else None)
        for fn in meta['fns']:
            fq0 = f'{fn["mod"]}::{fn["name"]}'
            if fq0 in degraded:
                labs0 = [L['label'] for L in fn['labels']]
                if pid == NOPANIC_PROP or any(label_prop(l) == pid for l in labs0):
                    inconclusive.append(f'{wname}: {fq0} is undecided: {degraded[fq0][:300]}')
                continue
            if fn['external_body'] or fn['variant'] == 'stub':
                continue
            key = (fn['mod'], fn['name'], fn['variant'], fn.get('probe'))
            fl = fails_by_fn.get(key, [])
            fq = f'{fn["mod"]}::{fn["name"]}'
            tm = match_fn_time(cm['times'], fn)
            if fn['variant'] == 'probe':
                # a probe is expected to fail at the finding's obligation
                for kf in open_findings:
                    if kf.get('probe') == fn['probe'] and kf.get('fn') == fq:
                        if fl:
                            known_hits.append(kf)
                        else:
                            print(f'NOTE: known finding {kf["id"]} no longer reproduces (probe {fq}#{fn["probe"]} verifies)')
                continue
            labs = [L['label'] for L in fn['labels']] + [L['label'] for L in fn.get('inner_labels', [])]
            mine = [l for l in labs if label_prop(l) == pid]
            nopanic = (pid == NOPANIC_PROP)
            if fq in deg_dependents and (mine or nopanic):
                why = degraded.get(fq) or ('depends on ' + ', '.join(sorted(degraded)))
                inconclusive.append(f'{wname}: {fq} is undecided: {why[:300]}')
                continue
            if not mine and not nopanic:
                # failures here belong to other properties, except unlabelled contract clauses
                for f in fl:
                    if f['where'] == 'ensures' and f['label'] is None:
                        inconclusive.append(f'{wname}: unlabelled contract clause of {fq} failed (callers assume it): line {f["line"]}')
                continue
            if (fn['mod'], fn['name']) in rl_fns or None in rl_fns:
                inconclusive.append(f'{wname}: rlimit exceeded in {fq}')
                continue
            if fn.get('dropped_hints') and fl:
                inconclusive.append(f'{wname}: {fq} lost the anchor of proof hint(s) {fn["dropped_hints"]} and no longer verifies: undecided')
                continue
            if fn.get('guards_left') and fl:
                # Verus does not resolve `&mut` borrows across a failed match guard (DESIGN 11.2 R10); R10 desugars the common
                # shape, other shapes are left alone and a failed proof in such a function is not trusted as a verdict
                inconclusive.append(f'{wname}: {fq} contains {fn["guards_left"]} match guard(s) that R10 does not desugar and no longer verifies: '
                                    f'undecided (known Verus limitation with borrows across guards)')
                continue
            closure_fail = [f for f in fl if 'post-condition of closure' in f['message'] or 'postcondition of closure' in f['message']]
            if closure_fail and fn.get('shape_pin') and fn.get('shape') == fn.get('shape_pin') and all(f.get('labels') for f in closure_fail):
                # everything AROUND the closures is byte-for-byte the text the closure contracts were written for (pinned shape
                # hash), so the closure is used exactly as before and now computes something else: a decided failure of the
                # clause(s) its contract carries
                pass
            elif closure_fail:
                # the contract attached (by ordinal) to a closure no longer describes that closure: the annotation, not
                # necessarily the behaviour, is off; everything proved in this function assumed it -> undecided
                inconclusive.append(f'{wname}: a closure of {fq} no longer satisfies the contract the annotation pins on it; '
                                    f'the function is undecided (its behaviour may or may not have changed)')
                continue
            if tm is None and not fl:
                inconclusive.append(f'{wname}: {fq} missing from Verus function breakdown')
                continue
            if tm:
                solver_us += tm.get('time_micros') or 0
            functions.append({'function': fq, 'world': wname, 'file': fn['file'], 'src_span': fn['src_span'],
                              'src_sha256': fn['src_sha256'], 'contract': fn['contract'],
                              'smt_time_us': tm and tm.get('time_micros'), 'rlimit': tm and tm.get('rlimit')})
            failed_labels = {}
            body_fail = []
            ghost_fail = []   # unlabelled proof steps (hints / invariants inserted by the contract) that no longer hold
            for f in fl:
                if f['where'] == 'ensures':
                    if f['label'] is None:
                        inconclusive.append(f'{wname}: unlabelled contract clause of {fq} failed: line {f["line"]}')
                    else:
                        for fl_ in f.get('labels') or [f['label']]:
                            failed_labels.setdefault(fl_, []).append(f)
                else:
                    if f['label'] is not None:
                        for fl_ in f.get('labels') or [f['label']]:
                            failed_labels.setdefault(fl_, []).append(f)
                    elif f.get('ghost'):
                        ghost_fail.append(f)
                    else:
                        body_fail.append(f)
            if ghost_fail:
                props_here = {label_prop(l) for l in labs} - {NOPANIC_PROP, None}
                if len(props_here) == 1 and pid in props_here:
                    # every clause of this function belongs to one property: its proof is that property's obligation
                    lab_ps = f'{pid}.{fn["name"].split("::")[-1]}-proof-step'
                    ob = {'id': f'{wname}:{fq}:{lab_ps}', 'label': lab_ps, 'function': fq, 'discharged': False}
                    obligations.append(ob)
                    violations.append({'obligation': ob['id'], 'label': lab_ps, 'function': fq, 'world': wname,
                                       'file': fn['file'], 'src_span': fn['src_span'],
                                       'verus': [x['rendered'] for x in ghost_fail]})
                else:
                    # Verus assumes a failed assertion afterwards, so everything proved after it is unreliable: the
                    # function's remaining obligations are undecided (a labelled obligation that failed is still reported)
                    inconclusive.append(f'{wname}: a proof step of {fq} no longer holds (unit.rs line {ghost_fail[0]["line"]}: '
                                        f'{ghost_fail[0]["message"]}); its obligations that did not fail are undecided')
            for l in mine:
                if ghost_fail and l not in failed_labels:
                    continue
                ob = {'id': f'{wname}:{fq}:{l}', 'label': l, 'function': fq, 'discharged': l not in failed_labels}
                obligations.append(ob)
                if l in failed_labels:
                    violations.append({'obligation': ob['id'], 'label': l, 'function': fq, 'world': wname,
                                       'file': fn['file'], 'src_span': fn['src_span'],
                                       'verus': [x['rendered'] for x in failed_labels[l]]})
            relies = []
            if nopanic and broken_callees and not body_fail:
                src_ = _src_of(fn)
                relies = sorted(v for k, v in broken_callees.items() if v != fq and re.search(r'\b' + re.escape(k) + r'\s*\(', src_))
            if relies:
                inconclusive.append(f'{wname}: panic-freedom of {fq} was proved from the contract of {", ".join(relies)}, a clause of which no longer holds: undecided')
            elif nopanic and not (ghost_fail and not body_fail):
                ob = {'id': f'{wname}:{fq}::nopanic', 'label': f'{fq}::nopanic', 'function': fq, 'discharged': not body_fail}
                obligations.append(ob)
                if body_fail:
                    violations.append({'obligation': ob['id'], 'label': ob['label'], 'function': fq, 'world': wname,
                                       'file': fn['file'], 'src_span': fn['src_span'],
                                       'verus': [x['rendered'] for x in body_fail]})
            elif body_fail and mine:
                # a body VC failed in a function that carries this property's clauses: the
                # function as a whole is not verified, but the failing VC is C16's, not ours.
                pass
    wall = time.time() - t0
    # ---------------------------------------------------------------- known findings
    reported = []
    seen_v = set()
    uniq = []
    for v in violations:
        if v['label'] in seen_v:
            continue
        seen_v.add(v['label'])
        uniq.append(v)
    violations = uniq
    for v in violations:
        kf = next((k for k in open_findings if k.get('obligation') == v['label'] and not k.get('probe')), None)
        if kf:
            known_hits.append(kf)
        else:
            reported.append(v)
    ev_dir = os.environ.get('VERIF_EVIDENCE', os.path.join(VERIF, 'evidence'))
    os.makedirs(ev_dir, exist_ok=True)
    rc = 0
    lines = []
    seen = set()
    for kf in known_hits:
        if kf['id'] in seen:
            continue
        seen.add(kf['id'])
        lines.append(f'KNOWN-FINDING: property={pid} {kf["id"]}: {kf["what"]}')
    bounded = None
    if inconclusive:
        rc = 2
        for m in inconclusive:
            lines.append(f'INCONCLUSIVE property={pid}: {m}')
        if not reported and (shared is None or os.environ.get('VERIF_BOUNDED_IN_ALL')):
            # the verifier cannot decide: bounded stand-in on the real code (labelled bounded, never proof)
            from .replay import bounded_stand_in
            path, w, note = bounded_stand_in(pid, inconclusive, seed)
            if w is not None:
                rc = 1
                bounded = w
                lines.append(f'VIOLATION property={pid} replay={path} obligation=bounded:{w["family"]} '
                             f'(verifier undecided; bounded search on the real code found: {w["failure"][:300]})')
            else:
                bounded = note
                lines.append(f'BOUNDED property={pid}: {note}')
    if reported:
        # a decided obligation failed: that is a violation whatever else is undecided
        rc = 1
        from .replay import make_replay
        for v in reported:
            path, found = make_replay(pid, v, seed)
            tail = '' if found else ' no-failing-input-found'
            lines.append(f'VIOLATION property={pid} replay={path} obligation={v["label"]}{tail}')
    thorough = {}
    if tier == 'thorough' and rc == 0 and shared is None:
        thorough = thorough_extras(pid, targets, seed)
        w = (thorough.get('bounded_search') or {}).get('witness')
        if w:
            # a concrete input on which the real code contradicts a clause of the property
            from .replay import safe
            d = os.environ.get('VERIF_REPLAYS', os.path.join(VERIF, 'replays'))
            os.makedirs(d, exist_ok=True)
            path = os.path.join(d, f'{pid}-bounded-{safe(w["family"])}.json')
            json.dump({'property': pid, 'obligation': f'bounded:{w["family"]}', 'label': f'bounded:{w["family"]}', 'function': None, 'file': None,
                       'verifier_output': [], 'witness': w, 'seed': w.get('seed'), 'level': 'bounded'}, open(path, 'w'), indent=1)
            rc = 1
            reported = reported or [{'label': f'bounded:{w["family"]}'}]
            lines.append(f'VIOLATION property={pid} replay={path} obligation=bounded:{w["family"]} '
                         f'(thorough tier, bounded search on the real code found: {w["failure"][:300]})')
    # shim functions verified on the dependency's source in this run: take them out of the trusted base when the bare name is
    # unambiguous among the external_body items
    discharged_names = set()
    bare = [t.split(' ', 1)[1] for t in trusted if t.startswith('external_body ')]
    for dv in dep_verified:
        mm = re.match(r'shim/\S+ (\S+) == contract verified', dv)
        if mm:
            nm = mm.group(1).split('::')[-1]
            if nm in dep_external and tb_max.get('external_body ' + nm) == 1:
                discharged_names.add('external_body ' + nm)
    n_ob = len(obligations)
    n_dis = sum(1 for o in obligations if o['discharged'])
    evidence = {
        'property_id': pid, 'tier': tier, 'seed': seed, 'level': 'proof',
        'coverage': {
            'obligations': n_ob, 'discharged': n_dis,
            'checker_cmd': 'verus unit.rs --output-json --time-expanded --error-format=json --multiple-errors 40 (Verus 0.2026.09.13, Z3) on text re-extracted from /repo by vf.assemble',
            'trusted_base': sorted(trusted - discharged_names),
            'trusted_base_note': ('entries of the shim whose contract text was verified in this run on the dependency\'s own source '
                                  '(worlds deps_*) are listed under dependency_contracts_verified, not here; only names that are '
                                  'unambiguous in the unit are moved: ' + ', '.join(sorted(discharged_names))) if discharged_names else '',
            'dependency_contracts_verified': sorted(set(dep_verified)),
            'samples': [o['id'] for o in obligations][:60],
            'functions_under_contract': functions,
            'vacuity_twins_expected_failed': twins,
            'rewrite_counters': counters,
            'solver_time_us': solver_us + solver_us_box[0],
            'unverified_repo_functions': sorted(unverified),
            'back_end': 'Verus 0.2026.09.13 / Z3',
            'worlds': [t[0] + ('+' + '+'.join(t[1]) if t[1] else '') for t in targets],
            'known_findings_hit': sorted(seen),
            'thorough': thorough,
            'inconclusive': inconclusive,
            'generated_obligations': generated,
            'bounded_stand_in': bounded,
        },
        'assumptions': ASSUMPTIONS + ['repo function NOT verified (contract assumed): ' + u for u in sorted(unverified)],
        'wall_s': round(wall, 2),
        'violations': (len(reported) or 1) if rc == 1 else 0,
    }
    if rc == 2 or n_ob == 0 or (rc == 1 and not reported):
        # not a proof-level result: say so
        evidence['level'] = 'other'
        evidence['coverage']['explanation'] = 'inconclusive run: ' + '; '.join(inconclusive)[:2000] if inconclusive else 'no obligations'
    if write_evidence:
        json.dump(evidence, open(os.path.join(ev_dir, f'{pid}.json'), 'w'), indent=1)
    for l in lines:
        print(l)
    print(f'{pid}: {n_dis}/{n_ob} obligations discharged, {len(functions)} functions, twins {twins}, {wall:.1f}s, exit {rc}')
    return rc


ASSUMPTIONS = [
    'dependency contracts in /verif/shim are assumed (cosmwasm-std, cw-storage-plus, cw-controllers, cw-utils, cw2, osmosis-std, bech32, sha2, serde_json, prost): see coverage.trusted_base',
    'storage: every stored value deserialises as the type it was written with; key/namespace encoding is cw-storage-plus\'s',
    'derive(Clone/PartialEq) are structural; thiserror #[from] generates the obvious From impls (R1)',
    'format! with plain placeholders prints Display text of str/String/Addr/integers (R3)',
    'String/Vec extensionality (equal views => equal values)',
    'environment (bank, IBC, token factory, ibc-hooks) as listed in DESIGN.md section 4',
    'machine integers are NOT treated as mathematical: every exec +,-,* carries an overflow VC',
]


def thorough_extras(pid, targets, seed):
    """(a) proof stability: the same units under another Z3 seed and a doubled resource limit;
    (b) kill matrix: every seeded change under /verif/seeded whose own property is this one is applied to a
    scratch copy of /repo and must make this check report a violation.  Neither changes the verdict on the
    current tree; both are reported in the evidence."""
    import shutil, subprocess, tempfile
    out = {'stability': [], 'kill_matrix': []}
    for t in targets:
        try:
            r = run_world(t[0], t[1], threads=8, verus_extra=['--smt-option', f'smt.random_seed={seed + 7}', '--rlimit', '60'])
            fails = [f.get('fn') for f in r['cm']['failures']] + [x['message'] for x in r['cm']['rlimit']]
            out['stability'].append({'world': t[0] + ('+' + '+'.join(t[1]) if t[1] else ''), 'z3_seed': seed + 7,
                                     'same_result': not fails and not r['cm']['compile_errors'], 'differences': fails[:5]})
        except Inconclusive as e:
            out['stability'].append({'world': t[0], 'error': str(e)})
    # (c) bounded exploration of the real code on the current tree: the witness search of /verif/replay with a
    # larger budget (never counted as proof; a witness here is a concrete failing input of the real code)
    try:
        from .mirrors import search, FAMILIES
        bs = {'families': FAMILIES.get(pid, []), 'cases_per_family': 20000, 'seeds': [seed + 1, seed + 2], 'witness': None}
        if bs['families']:
            for sd in bs['seeds']:
                w = search(pid, None, sd, cases=20000)
                if w is not None:
                    bs['witness'] = w
                    break
        out['bounded_search'] = bs
    except Exception as e:
        out['bounded_search'] = {'error': repr(e)[:300]}
    seeded = os.path.join(VERIF, 'seeded')
    ids = sorted(d for d in (os.listdir(seeded) if os.path.isdir(seeded) else []) if os.path.exists(os.path.join(seeded, d, 'meta.json')))
    mine = []
    for d in ids:
        meta = json.load(open(os.path.join(seeded, d, 'meta.json')))
        if meta.get('property') == pid:
            mine.append((d, meta))
    if mine:
        tmp = tempfile.mkdtemp(prefix='verif-kill-', dir='/tmp')
        try:
            for d, meta in mine:
                cp = os.path.join(tmp, 'repo')
                shutil.rmtree(cp, ignore_errors=True)
                subprocess.run(['rsync', '-a', '--exclude', 'target', '--exclude', '.git', REPO + '/', cp + '/'], check=True)
                a = subprocess.run(['patch', '-p1', '-s', '-i', os.path.join(seeded, d, 'patch.diff')], cwd=cp, capture_output=True, text=True)
                if a.returncode != 0:
                    out['kill_matrix'].append({'seed': d, 'result': 'patch does not apply to the current tree'})
                    continue
                env = dict(os.environ, VERIF_REPO=cp, VERIF_WORK=os.path.join(tmp, 'work'), VERIF_EVIDENCE=os.path.join(tmp, 'ev'),
                           VERIF_REPLAYS=os.path.join(tmp, 'replays'), VERIF_TIER='quick')
                c = subprocess.run([sys.executable, '-m', 'vf.check', pid], cwd=VERIF, env=env, capture_output=True, text=True)
                out['kill_matrix'].append({'seed': d, 'exit': c.returncode,
                                           'result': {0: 'SURVIVED', 1: 'killed', 2: 'inconclusive'}.get(c.returncode, 'error'),
                                           'lines': [l[:200] for l in c.stdout.split('\n') if l.startswith(('VIOLATION', 'INCONCLUSIVE'))][:3]})
        finally:
            shutil.rmtree(tmp, ignore_errors=True)
    return out


def check_all(pids, tier='quick', seed=0):
    """one Verus run per world, then every property's verdict from the shared results"""
    shared = {}
    worlds = all_worlds()
    def go(t):
        try:
            return (t[0], t[1]), run_world(t[0], t[1], threads=4)
        except Inconclusive as e:
            return (t[0], t[1]), {'inconclusive': str(e), 'world': t[0]}
    with ThreadPoolExecutor(len(worlds)) as ex:
        for k, v in ex.map(go, worlds):
            shared[k] = v
    out = {}
    for pid in pids:
        out[pid] = check(pid, tier, seed, shared=shared, write_evidence=False)
    return out


def main(argv):
    if len(argv) >= 2 and argv[1] == '--all':
        from .manifest_table import CLAIMED  # noqa
        from . import manifest
        res = check_all(sorted(manifest.CLAIMED))
        print('SUMMARY ' + ' '.join(f'{k}={v}' for k, v in res.items()))
        return 1 if any(v == 1 for v in res.values()) else (2 if any(v == 2 for v in res.values()) else 0)
    if len(argv) >= 2 and argv[1] == 'replay':
        from .replay import run_replay
        return run_replay(argv[2])
    pid = argv[1]
    tier = os.environ.get('VERIF_TIER', 'quick')
    if '--tier' in argv:
        tier = argv[argv.index('--tier') + 1]
    seed = int(os.environ.get('VERIF_SEED', '0') or 0)
    if pid not in PROP_IDS:
        print(f'unknown property {pid}')
        return 2
    return check(pid, tier, seed)


if __name__ == '__main__':
    try:
        rc = main(sys.argv)
    except Inconclusive as e:
        print(f'INCONCLUSIVE: {e}')
        rc = 2
    except Exception as e:   # a crash of the machinery is never a verdict
        import traceback
        traceback.print_exc()
        print(f'INCONCLUSIVE: internal error in the checker: {e!r}')
        rc = 2
    sys.exit(rc)
