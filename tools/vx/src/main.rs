// vx — source indexer for the verification pipeline.
//
// Parses Rust files with `syn` (span-locations on) and prints, as JSON, the byte spans of
// every item, and inside every function: signature parts, loops, closures, macro calls and
// top-level statements.  The Python assembler (`vf`) uses nothing but these spans to cut the
// real text out of /repo and to insert contract text; vx never rewrites code itself.
//
// usage: vx FILE...      (JSON on stdout: { "<file>": {..index..}, ... })

use proc_macro2::Span;
use serde_json::{json, Value};
use syn::spanned::Spanned;
use syn::visit::{self, Visit};

struct LineMap {
    // byte offset of the start of each line, and the text for char->byte conversion
    starts: Vec<usize>,
    src: String,
}

impl LineMap {
    fn new(src: &str) -> Self {
        let mut starts = vec![0usize];
        for (i, b) in src.bytes().enumerate() {
            if b == b'\n' {
                starts.push(i + 1);
            }
        }
        LineMap { starts, src: src.to_string() }
    }
    fn off(&self, lc: proc_macro2::LineColumn) -> usize {
        let ls = self.starts[lc.line - 1];
        let line_end = if lc.line < self.starts.len() { self.starts[lc.line] } else { self.src.len() };
        let line = &self.src[ls..line_end];
        let mut o = ls;
        for (n, (i, _)) in line.char_indices().enumerate() {
            if n == lc.column {
                return ls + i;
            }
            o = ls + i;
        }
        let _ = o;
        // column == number of chars in line => end of line
        ls + line.len().min(
            line.char_indices().nth(lc.column).map(|(i, _)| i).unwrap_or(line.len()),
        )
    }
    fn span(&self, s: Span) -> Value {
        json!([self.off(s.start()), self.off(s.end())])
    }
    fn text(&self, s: Span) -> String {
        self.src[self.off(s.start())..self.off(s.end())].to_string()
    }
}

struct FnVisitor<'a> {
    lm: &'a LineMap,
    loops: Vec<Value>,
    closures: Vec<Value>,
    macros: Vec<Value>,
    calls: Vec<Value>,
    ifs: Vec<Value>,
    matches: Vec<Value>,
    all_stmts: Vec<Value>,
}

impl<'a, 'ast> Visit<'ast> for FnVisitor<'a> {
    fn visit_expr_for_loop(&mut self, n: &'ast syn::ExprForLoop) {
        let ord = self.loops.len();
        self.loops.push(json!({
            "ordinal": ord, "kind": "for", "span": self.lm.span(n.span()),
            "pat": self.lm.span(n.pat.span()), "in_token": self.lm.span(n.in_token.span()),
            "expr": self.lm.span(n.expr.span()), "body": self.lm.span(n.body.span()),
        }));
        visit::visit_expr_for_loop(self, n);
    }
    fn visit_expr_while(&mut self, n: &'ast syn::ExprWhile) {
        let ord = self.loops.len();
        self.loops.push(json!({
            "ordinal": ord, "kind": "while", "span": self.lm.span(n.span()),
            "cond": self.lm.span(n.cond.span()), "body": self.lm.span(n.body.span()),
        }));
        visit::visit_expr_while(self, n);
    }
    fn visit_expr_loop(&mut self, n: &'ast syn::ExprLoop) {
        let ord = self.loops.len();
        self.loops.push(json!({
            "ordinal": ord, "kind": "loop", "span": self.lm.span(n.span()),
            "body": self.lm.span(n.body.span()),
        }));
        visit::visit_expr_loop(self, n);
    }
    fn visit_expr_closure(&mut self, n: &'ast syn::ExprClosure) {
        let ord = self.closures.len();
        let ret = match &n.output {
            syn::ReturnType::Default => Value::Null,
            syn::ReturnType::Type(_, t) => json!({"span": self.lm.span(n.output.span()), "ty": self.lm.text(t.span())}),
        };
        let inputs: Vec<Value> = n.inputs.iter().map(|p| json!(self.lm.text(p.span()))).collect();
        self.closures.push(json!({
            "ordinal": ord, "span": self.lm.span(n.span()),
            "or1": self.lm.span(n.or1_token.span()), "or2": self.lm.span(n.or2_token.span()),
            "ret": ret, "inputs": inputs,
            "is_move": n.capture.is_some(),
            "body": self.lm.span(n.body.span()),
            "body_is_block": matches!(&*n.body, syn::Expr::Block(_)),
        }));
        visit::visit_expr_closure(self, n);
    }
    fn visit_macro(&mut self, n: &'ast syn::Macro) {
        let name = n.path.segments.last().map(|s| s.ident.to_string()).unwrap_or_default();
        let (open, close) = match &n.delimiter {
            syn::MacroDelimiter::Paren(p) => (p.span.open(), p.span.close()),
            syn::MacroDelimiter::Brace(p) => (p.span.open(), p.span.close()),
            syn::MacroDelimiter::Bracket(p) => (p.span.open(), p.span.close()),
        };
        // first token, if it is a string literal (format strings)
        let mut first_lit = Value::Null;
        if let Some(proc_macro2::TokenTree::Literal(l)) = n.tokens.clone().into_iter().next() {
            first_lit = json!({"span": self.lm.span(l.span()), "text": l.to_string()});
        }
        self.macros.push(json!({
            "name": name, "span": self.lm.span(n.span()), "path": self.lm.span(n.path.span()),
            "open": self.lm.span(open), "close": self.lm.span(close), "first_lit": first_lit,
        }));
        // parse common expression-list macros so closures / loops inside are seen
        if let Ok(args) = n.parse_body_with(syn::punctuated::Punctuated::<syn::Expr, syn::Token![,]>::parse_terminated) {
            for e in args.iter() {
                self.visit_expr(e);
            }
        }
    }
    fn visit_expr_call(&mut self, n: &'ast syn::ExprCall) {
        self.calls.push(json!({"kind": "call", "func": self.lm.text(n.func.span()),
            "func_span": self.lm.span(n.func.span()), "span": self.lm.span(n.span())}));
        visit::visit_expr_call(self, n);
    }
    fn visit_expr_method_call(&mut self, n: &'ast syn::ExprMethodCall) {
        self.calls.push(json!({"kind": "method", "method": n.method.to_string(),
            "method_span": self.lm.span(n.method.span()),
            "receiver": self.lm.span(n.receiver.span()), "span": self.lm.span(n.span())}));
        visit::visit_expr_method_call(self, n);
    }
    fn visit_expr_match(&mut self, n: &'ast syn::ExprMatch) {
        let arms: Vec<Value> = n.arms.iter().map(|a| {
            let is_wild = matches!(a.pat, syn::Pat::Wild(_));
            json!({"span": self.lm.span(a.span()), "pat": self.lm.span(a.pat.span()),
                   "guard": a.guard.as_ref().map(|(_, g)| self.lm.span(g.span())),
                   "if_span": a.guard.as_ref().map(|(i, _)| self.lm.span(i.span())),
                   "arrow": self.lm.span(a.fat_arrow_token.span()),
                   "body": self.lm.span(a.body.span()),
                   "body_is_block": matches!(*a.body, syn::Expr::Block(_)),
                   "wild": is_wild})
        }).collect();
        self.matches.push(json!({"span": self.lm.span(n.span()), "arms": arms}));
        visit::visit_expr_match(self, n);
    }
    fn visit_expr_if(&mut self, n: &'ast syn::ExprIf) {
        self.ifs.push(json!({"span": self.lm.span(n.span()), "cond": self.lm.span(n.cond.span())}));
        visit::visit_expr_if(self, n);
    }
    fn visit_block(&mut self, n: &'ast syn::Block) {
        for st in &n.stmts {
            self.all_stmts.push(json!({"span": self.lm.span(st.span())}));
        }
        visit::visit_block(self, n);
    }
    // do not descend into nested items
    fn visit_item(&mut self, _n: &'ast syn::Item) {}
}

fn attrs_json(lm: &LineMap, attrs: &[syn::Attribute]) -> Value {
    Value::Array(
        attrs
            .iter()
            .map(|a| {
                json!({"span": lm.span(a.span()),
                       "path": a.path().segments.iter().map(|s| s.ident.to_string()).collect::<Vec<_>>().join("::"),
                       "text": lm.text(a.span())})
            })
            .collect(),
    )
}

fn sig_json(lm: &LineMap, sig: &syn::Signature) -> Value {
    let inputs: Vec<Value> = sig
        .inputs
        .iter()
        .map(|a| match a {
            syn::FnArg::Receiver(r) => json!({"name": "self", "text": lm.text(r.span()), "span": lm.span(r.span())}),
            syn::FnArg::Typed(t) => {
                let impl_trait = match &*t.ty {
                    syn::Type::ImplTrait(it) => json!({"span": lm.span(it.span()), "text": lm.text(it.span())}),
                    _ => Value::Null,
                };
                json!({"name": lm.text(t.pat.span()), "ty": lm.text(t.ty.span()),
                       "ty_span": lm.span(t.ty.span()), "span": lm.span(t.span()), "impl_trait": impl_trait})
            }
        })
        .collect();
    let output = match &sig.output {
        syn::ReturnType::Default => Value::Null,
        syn::ReturnType::Type(arrow, t) => json!({"arrow": lm.span(arrow.span()), "ty_span": lm.span(t.span()), "ty": lm.text(t.span())}),
    };
    let wh = match &sig.generics.where_clause {
        Some(w) => lm.span(w.span()),
        None => Value::Null,
    };
    json!({"ident": sig.ident.to_string(), "ident_span": lm.span(sig.ident.span()),
           "fn_token": lm.span(sig.fn_token.span()),
           "paren": [lm.span(sig.paren_token.span.open()), lm.span(sig.paren_token.span.close())],
           "generics": if sig.generics.params.is_empty() { Value::Null } else { lm.span(sig.generics.span()) },
           "inputs": inputs, "output": output, "where": wh})
}

fn fn_json(lm: &LineMap, path: &str, attrs: &[syn::Attribute], vis_span: Option<Span>, sig: &syn::Signature, block: &syn::Block, whole: Span) -> Value {
    let mut v = FnVisitor { lm, loops: vec![], closures: vec![], macros: vec![], calls: vec![], ifs: vec![], matches: vec![], all_stmts: vec![] };
    v.visit_block(block);
    let stmts: Vec<Value> = block
        .stmts
        .iter()
        .enumerate()
        .map(|(i, s)| json!({"ordinal": i, "span": lm.span(s.span())}))
        .collect();
    let start_no_attrs = match vis_span {
        Some(s) if lm.off(s.start()) != lm.off(s.end()) => lm.off(s.start()),
        _ => {
            // first token of the signature
            let mut o = lm.off(sig.fn_token.span().start());
            if let Some(c) = &sig.constness { o = o.min(lm.off(c.span().start())); }
            if let Some(c) = &sig.asyncness { o = o.min(lm.off(c.span().start())); }
            if let Some(c) = &sig.unsafety { o = o.min(lm.off(c.span().start())); }
            o
        }
    };
    json!({"kind": "fn", "name": sig.ident.to_string(), "path": path, "span": lm.span(whole),
           "start_no_attrs": start_no_attrs,
           "attrs": attrs_json(lm, attrs), "sig": sig_json(lm, sig),
           "block": lm.span(block.span()), "stmts": stmts,
           "loops": v.loops, "closures": v.closures, "macros": v.macros, "calls": v.calls, "ifs": v.ifs, "matches": v.matches, "all_stmts": v.all_stmts})
}

fn fields_json(lm: &LineMap, fields: &syn::Fields) -> Value {
    match fields {
        syn::Fields::Named(n) => json!({"style": "named", "fields": n.named.iter().map(|f| json!({
            "name": f.ident.as_ref().unwrap().to_string(), "ty": lm.text(f.ty.span()),
            "attrs": attrs_json(lm, &f.attrs), "span": lm.span(f.span())})).collect::<Vec<_>>()}),
        syn::Fields::Unnamed(n) => json!({"style": "tuple", "fields": n.unnamed.iter().enumerate().map(|(i, f)| json!({
            "name": i.to_string(), "ty": lm.text(f.ty.span()),
            "attrs": attrs_json(lm, &f.attrs), "span": lm.span(f.span())})).collect::<Vec<_>>()}),
        syn::Fields::Unit => json!({"style": "unit", "fields": []}),
    }
}

fn start_after_attrs(lm: &LineMap, attrs: &[syn::Attribute], whole: Span) -> usize {
    let mut o = lm.off(whole.start());
    for a in attrs {
        let e = lm.off(a.span().end());
        if e > o {
            o = e;
        }
    }
    // skip whitespace
    let b = lm.src.as_bytes();
    while o < b.len() && (b[o] as char).is_whitespace() {
        o += 1;
    }
    o
}

fn items_json(lm: &LineMap, prefix: &str, items: &[syn::Item], out: &mut Vec<Value>) {
    for it in items {
        match it {
            syn::Item::Fn(f) => {
                let p = format!("{}{}", prefix, f.sig.ident);
                out.push(fn_json(lm, &p, &f.attrs, Some(f.vis.span()), &f.sig, &f.block, f.span()));
            }
            syn::Item::Struct(s) => {
                out.push(json!({"kind": "struct", "name": s.ident.to_string(), "path": format!("{}{}", prefix, s.ident),
                    "span": lm.span(s.span()), "start_no_attrs": start_after_attrs(lm, &s.attrs, s.span()),
                    "attrs": attrs_json(lm, &s.attrs), "fields": fields_json(lm, &s.fields),
                    "generics": if s.generics.params.is_empty() { Value::Null } else { json!(lm.text(s.generics.span())) }}));
            }
            syn::Item::Enum(e) => {
                let variants: Vec<Value> = e.variants.iter().map(|v| json!({
                    "name": v.ident.to_string(), "attrs": attrs_json(lm, &v.attrs),
                    "fields": fields_json(lm, &v.fields), "span": lm.span(v.span()),
                    "discriminant": v.discriminant.as_ref().map(|(_, e)| lm.text(e.span()))})).collect();
                out.push(json!({"kind": "enum", "name": e.ident.to_string(), "path": format!("{}{}", prefix, e.ident),
                    "span": lm.span(e.span()), "start_no_attrs": start_after_attrs(lm, &e.attrs, e.span()),
                    "attrs": attrs_json(lm, &e.attrs), "variants": variants}));
            }
            syn::Item::Const(c) => {
                out.push(json!({"kind": "const", "name": c.ident.to_string(), "path": format!("{}{}", prefix, c.ident),
                    "span": lm.span(c.span()), "start_no_attrs": start_after_attrs(lm, &c.attrs, c.span()),
                    "attrs": attrs_json(lm, &c.attrs),
                    "ty": lm.text(c.ty.span()), "ty_span": lm.span(c.ty.span()),
                    "expr": lm.text(c.expr.span()), "expr_span": lm.span(c.expr.span())}));
            }
            syn::Item::Type(t) => {
                out.push(json!({"kind": "type", "name": t.ident.to_string(), "path": format!("{}{}", prefix, t.ident),
                    "span": lm.span(t.span()), "start_no_attrs": start_after_attrs(lm, &t.attrs, t.span()),
                    "attrs": attrs_json(lm, &t.attrs)}));
            }
            syn::Item::Impl(i) => {
                let self_ty = lm.text(i.self_ty.span());
                let trait_ = i.trait_.as_ref().map(|(_, p, _)| lm.text(p.span()));
                let name = match &trait_ {
                    Some(t) => format!("<{} as {}>", self_ty, t),
                    None => self_ty.clone(),
                };
                let mut methods = vec![];
                let mut consts = vec![];
                let mut types = vec![];
                for ii in &i.items {
                    if let syn::ImplItem::Const(c) = ii {
                        consts.push(json!({"name": c.ident.to_string(), "ty": lm.text(c.ty.span()), "expr": lm.text(c.expr.span()), "span": lm.span(c.span())}));
                    }
                    if let syn::ImplItem::Type(t) = ii {
                        types.push(json!({"name": t.ident.to_string(), "text": lm.text(t.span())}));
                    }
                    if let syn::ImplItem::Fn(m) = ii {
                        let p = format!("{}{}::{}", prefix, name, m.sig.ident);
                        methods.push(fn_json(lm, &p, &m.attrs, Some(m.vis.span()), &m.sig, &m.block, m.span()));
                    }
                }
                out.push(json!({"kind": "impl", "name": name, "path": format!("{}{}", prefix, name),
                    "self_ty": self_ty, "trait": trait_,
                    "span": lm.span(i.span()), "start_no_attrs": start_after_attrs(lm, &i.attrs, i.span()),
                    "attrs": attrs_json(lm, &i.attrs),
                    "brace": [lm.span(i.brace_token.span.open()), lm.span(i.brace_token.span.close())],
                    "methods": methods, "consts": consts, "types": types}));
            }
            syn::Item::Mod(m) => {
                let is_test = m.attrs.iter().any(|a| lm.text(a.span()).contains("cfg(test)"));
                if let Some((_, sub)) = &m.content {
                    out.push(json!({"kind": "mod", "name": m.ident.to_string(), "path": format!("{}{}", prefix, m.ident),
                        "span": lm.span(m.span()), "attrs": attrs_json(lm, &m.attrs), "inline": true, "test": is_test}));
                    if !is_test {
                        items_json(lm, &format!("{}{}::", prefix, m.ident), sub, out);
                    }
                } else {
                    out.push(json!({"kind": "mod", "name": m.ident.to_string(), "path": format!("{}{}", prefix, m.ident),
                        "span": lm.span(m.span()), "attrs": attrs_json(lm, &m.attrs), "inline": false, "test": is_test}));
                }
            }
            syn::Item::Use(u) => {
                let mut leaves = vec![];
                use_leaves(&u.tree, &mut vec![], &mut leaves);
                let vis = match &u.vis { syn::Visibility::Inherited => "".to_string(), v => lm.text(v.span()) };
                out.push(json!({"kind": "use", "name": "", "path": "", "span": lm.span(u.span()), "text": lm.text(u.span()),
                    "vis": vis, "attrs": attrs_json(lm, &u.attrs), "leaves": leaves}));
            }
            syn::Item::Static(s) => {
                out.push(json!({"kind": "static", "name": s.ident.to_string(), "path": format!("{}{}", prefix, s.ident), "span": lm.span(s.span())}));
            }
            syn::Item::Trait(t) => {
                let mut titems = vec![];
                for ti in &t.items {
                    match ti {
                        syn::TraitItem::Fn(m) => {
                            let p = format!("{}{}::{}", prefix, t.ident, m.sig.ident);
                            if let Some(b) = &m.default {
                                let mut f = fn_json(lm, &p, &m.attrs, None, &m.sig, b, m.span());
                                f["has_body"] = json!(true);
                                titems.push(f);
                            } else {
                                titems.push(json!({"kind": "fn", "name": m.sig.ident.to_string(), "path": p, "span": lm.span(m.span()),
                                    "start_no_attrs": start_after_attrs(lm, &m.attrs, m.span()),
                                    "attrs": attrs_json(lm, &m.attrs), "sig": sig_json(lm, &m.sig), "has_body": false,
                                    "semi": m.semi_token.map(|s| lm.span(s.span()))}));
                            }
                        }
                        other => {
                            titems.push(json!({"kind": "other", "span": lm.span(other.span())}));
                        }
                    }
                }
                out.push(json!({"kind": "trait", "name": t.ident.to_string(), "path": format!("{}{}", prefix, t.ident),
                    "span": lm.span(t.span()), "start_no_attrs": start_after_attrs(lm, &t.attrs, t.span()), "attrs": attrs_json(lm, &t.attrs),
                    "brace": [lm.span(t.brace_token.span.open()), lm.span(t.brace_token.span.close())],
                    "items": titems}));
            }
            syn::Item::Macro(m) => {
                out.push(json!({"kind": "macro", "name": m.mac.path.segments.last().map(|s| s.ident.to_string()).unwrap_or_default(),
                    "path": "", "span": lm.span(m.span())}));
            }
            other => {
                out.push(json!({"kind": "other", "name": "", "path": "", "span": lm.span(other.span())}));
            }
        }
    }
}

fn use_leaves(t: &syn::UseTree, prefix: &mut Vec<String>, out: &mut Vec<Value>) {
    match t {
        syn::UseTree::Path(p) => {
            prefix.push(p.ident.to_string());
            use_leaves(&p.tree, prefix, out);
            prefix.pop();
        }
        syn::UseTree::Name(n) => {
            let mut p = prefix.clone();
            p.push(n.ident.to_string());
            out.push(json!({"path": p, "alias": Value::Null, "glob": false}));
        }
        syn::UseTree::Rename(r) => {
            let mut p = prefix.clone();
            p.push(r.ident.to_string());
            out.push(json!({"path": p, "alias": r.rename.to_string(), "glob": false}));
        }
        syn::UseTree::Glob(_) => {
            out.push(json!({"path": prefix.clone(), "alias": Value::Null, "glob": true}));
        }
        syn::UseTree::Group(g) => {
            for i in g.items.iter() {
                use_leaves(i, prefix, out);
            }
        }
    }
}

fn main() {
    let mut out = serde_json::Map::new();
    for path in std::env::args().skip(1) {
        let src = match std::fs::read_to_string(&path) {
            Ok(s) => s,
            Err(e) => {
                out.insert(path.clone(), json!({"error": format!("read: {e}")}));
                continue;
            }
        };
        let lm = LineMap::new(&src);
        match syn::parse_file(&src) {
            Ok(f) => {
                let mut items = vec![];
                items_json(&lm, "", &f.items, &mut items);
                out.insert(path.clone(), json!({"len": src.len(), "items": items}));
            }
            Err(e) => {
                out.insert(path.clone(), json!({"error": format!("parse: {e}")}));
            }
        }
    }
    println!("{}", serde_json::to_string(&Value::Object(out)).unwrap());
}
