#!/usr/bin/env python3
"""Regression run: every stored seeded change against the check of its OWN property (scratch worktree, evidence/replays
redirected).  usage: rerun_own.py SHARD NSHARDS [ids..]   results: /tmp/sv/rerun_own_<shard>.json"""
import json, os, subprocess, sys, glob
shard, n = int(sys.argv[1]), int(sys.argv[2])
ids = sys.argv[3:] or sorted(os.path.basename(d) for d in glob.glob('/verif/seeded/C*-*') + glob.glob('/verif/seeded/R*-*'))
ids = [s for i, s in enumerate(ids) if i % n == shard]
WT = f'/tmp/sv/own{shard}'
HERE = os.path.dirname(os.path.dirname(os.path.abspath(__file__)))
env = dict(os.environ, VERIF_VX='/verif/target/release/vx', VERIF_REPO=WT, VERIF_WORK=f'/tmp/sv/work_own{shard}', VERIF_EVIDENCE=f'/tmp/sv/ev_own{shard}',
           VERIF_REPLAYS=f'/tmp/sv/rp_own{shard}', VERIF_REPLAY_TARGET=f'/tmp/sv/rptarget_own{shard}')
subprocess.run(['git', '-C', '/repo', 'worktree', 'remove', '--force', WT], capture_output=True)
subprocess.run(f'git -C /repo worktree add -q --detach {WT} HEAD', shell=True, check=True)
resf = f'/tmp/sv/rerun_own_{shard}.json'
res = json.load(open(resf)) if os.path.exists(resf) else {}
try:
    for sid in ids:
        if sid in res:
            continue
        subprocess.run('git checkout -q -- . && git clean -fdq', shell=True, cwd=WT)
        a = subprocess.run(['git', 'apply', f'/verif/seeded/{sid}/patch.diff'], cwd=WT, capture_output=True, text=True)
        if a.returncode:
            res[sid] = {'error': 'patch does not apply'}
            continue
        prop = json.load(open(f'/verif/seeded/{sid}/meta.json')).get('property', sid.split('-')[0])
        c = subprocess.run(['python3', '-m', 'vf.check', prop], cwd=HERE, env=env, capture_output=True, text=True)
        viol = [l[:300] for l in c.stdout.split('\n') if l.startswith('VIOLATION')]
        res[sid] = {'exit': c.returncode, 'violations': viol[:6], 'bounded_only': bool(viol) and all('obligation=bounded:' in l for l in viol),
                    'no_input': bool(viol) and all(l.rstrip().endswith('no-failing-input-found') for l in viol)}
        json.dump(res, open(resf, 'w'), indent=1)
        print(sid, c.returncode, 'bounded-only' if res[sid]['bounded_only'] else '', flush=True)
finally:
    subprocess.run(['git', '-C', '/repo', 'worktree', 'remove', '--force', WT], capture_output=True)
