#!/usr/bin/env python3
"""fills `pin=<sha>` on stub contracts of a world from the assembler's own message (run deliberately: a pin says
'this assumed contract was written for this body')"""
import re, subprocess, sys
w = sys.argv[1]
for _ in range(40):
    p = subprocess.run(['python3', '-m', 'vf.assemble', w], capture_output=True, text=True, cwd='/verif')
    m = re.search(r'INCONCLUSIVE: (\S+):(\d+): stub .* has no pin=<sha> option \(current body: pin=(\w+)\)', p.stdout)
    if not m:
        print(p.stdout[-600:])
        break
    f, ln, pin = m.group(1), int(m.group(2)), m.group(3)
    L = open(f).read().split('\n')
    L[ln - 1] = L[ln - 1].replace(' stub', f' stub pin={pin}', 1)
    open(f, 'w').write('\n'.join(L))
    print('pinned', L[ln - 1])
