#!/usr/bin/env python3
"""Confirms seeded changes in a scratch worktree: (1) suite passes with the change,
(2) demo fails with the change, (3) demo passes without it.  usage: confirm_seeds.py OUTDIR [ids...]"""
import json, os, re, subprocess, sys
OUT = sys.argv[1]
TAG = os.environ.get('CONFIRM_TAG', '')
WT = '/tmp/sv/wt' + TAG
ENV = dict(os.environ, CARGO_TARGET_DIR='/tmp/sv/target' + TAG, CARGO_NET_OFFLINE='true')

def sh(cmd, cwd=WT):
    return subprocess.run(cmd, shell=True, cwd=cwd, env=ENV, capture_output=True, text=True)

def run_tests():
    p = sh('cargo test --workspace --offline --no-fail-fast 2>&1')
    out = p.stdout
    passed = sum(int(x) for x in re.findall(r'test result: \w+\. (\d+) passed', out))
    failed = re.findall(r'^test (\S+) \.\.\. FAILED', out, re.M)
    comp_err = 'error[' in out or 'error: could not compile' in out
    return passed, sorted(set(failed)), comp_err, out[-3000:]

def reset():
    sh('git checkout -- . && git clean -fdq -e target')

if not os.path.exists(WT):
    os.makedirs('/tmp/sv', exist_ok=True)
    subprocess.run(f'git -C /repo worktree add -q --detach {WT} HEAD', shell=True, check=True)
ids = sys.argv[2:] or sorted(d for d in os.listdir(OUT) if re.match(r'C\d\d-\d+$', d))
results = {}
resf = '/tmp/sv/results' + TAG + '.json'
if os.path.exists(resf):
    results = json.load(open(resf))
for sid in ids:
    d = os.path.join(OUT, sid)
    if sid in results or not os.path.exists(os.path.join(d, 'patch.diff')) or not os.path.exists(os.path.join(d, 'meta.json')):
        continue
    r = {'id': sid}
    reset()
    a = sh(f'git apply {d}/patch.diff')
    if a.returncode != 0:
        r['error'] = 'patch does not apply: ' + a.stderr[-500:]
        results[sid] = r
        json.dump(results, open(resf, 'w'), indent=1)
        continue
    passed, failed, cerr, tail = run_tests()
    r['suite_with_change'] = {'passed': passed, 'failed': failed, 'compile_error': cerr}
    demo = os.path.join(d, 'demo_test.patch')
    if not os.path.exists(demo):
        r['error'] = 'no demo_test.patch'
    else:
        a = sh(f'git apply {demo}')
        if a.returncode != 0:
            r['error'] = 'demo does not apply: ' + a.stderr[-500:]
        else:
            p2, f2, c2, t2 = run_tests()
            r['demo_with_change'] = {'passed': p2, 'failed': f2, 'compile_error': c2}
            sh(f'git apply -R {d}/patch.diff')
            p3, f3, c3, t3 = run_tests()
            r['demo_without_change'] = {'passed': p3, 'failed': f3, 'compile_error': c3}
            r['confirmed'] = (passed == 107 and not failed and not cerr and len(f2) >= 1 and not c2 and not f3 and not c3 and p3 > 107)
    results[sid] = r
    json.dump(results, open(resf, 'w'), indent=1)
    print(sid, r.get('confirmed'), r.get('error', ''), flush=True)
reset()
