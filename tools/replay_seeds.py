#!/usr/bin/env python3
"""For every seeded change: apply it to a scratch worktree, build the replay driver against that
tree and report whether the witness search finds a concrete failing input.
usage: replay_seeds.py <dir-with-seeds>...   (each seed dir has patch.diff)"""
import json, os, subprocess, sys
sys.path.insert(0, '/verif')
WT = '/tmp/sv/rpwt'
os.makedirs('/tmp/sv', exist_ok=True)
subprocess.run(['git', '-C', '/repo', 'worktree', 'remove', '--force', WT], capture_output=True)
subprocess.run(['git', '-C', '/repo', 'worktree', 'add', '--detach', WT, 'HEAD'], check=True, capture_output=True)
os.environ['VERIF_WORK'] = '/tmp/sv/rpwork'
os.environ['VERIF_REPLAY_TARGET'] = '/tmp/rp/target_seeds'
from vf import mirrors
out = {}
try:
    for root in sys.argv[1:]:
        for sid in sorted(os.listdir(root)):
            pd = os.path.join(root, sid, 'patch.diff')
            if not os.path.exists(pd):
                continue
            subprocess.run(['git', '-C', WT, 'checkout', '--', '.'], check=True)
            subprocess.run(['git', '-C', WT, 'clean', '-fdq', '-e', 'target'], check=True)
            a = subprocess.run(['git', '-C', WT, 'apply', pd], capture_output=True, text=True)
            if a.returncode:
                print(sid, 'patch does not apply', a.stderr[:200]); continue
            try:
                exe = mirrors.build(WT)
            except Exception as e:
                print(sid, 'BUILD-FAIL', str(e)[-300:]); out[sid] = 'build-fail'; continue
            p = subprocess.run([exe, 'search', 'all', '1', '3000', sid[:3]], capture_output=True, text=True)
            w = json.loads(p.stdout.strip().split('\n')[-1])
            out[sid] = w
            print(sid, 'WITNESS ' + w['family'] + ': ' + w['failure'][:230] if w else 'none', flush=True)
finally:
    subprocess.run(['git', '-C', '/repo', 'worktree', 'remove', '--force', WT], capture_output=True)
    json.dump(out, open('/tmp/sv/replay_seeds.json', 'w'), indent=1)
