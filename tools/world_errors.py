#!/usr/bin/env python3
"""Debug aid: assemble a world as-is (no isolation) and print Verus' compile errors.  usage: world_errors.py <world> [feature]"""
import sys, os
sys.path.insert(0, os.path.dirname(os.path.dirname(os.path.abspath(__file__))))
from vf.assemble import assemble
from vf.run import run_verus, classify
w = sys.argv[1]; feats = tuple(sys.argv[2:])
outdir, meta = assemble(w, feats)
res = run_verus(os.path.join(outdir, 'unit.rs'))
c = classify(res, meta['fns'])
for e in c['compile_errors'][:12]:
    print(e[:1500]); print('---')
print(len(c['compile_errors']), 'compile errors;', len(c['failures']), 'verification failures')
