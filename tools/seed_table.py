#!/usr/bin/env python3
"""Markdown table 'which checks catch which seeded change' from /verif/seeded/*/meta.json (written by collect_seeds.py)."""
import json, os, glob
rows = []
for d in sorted(glob.glob('/verif/seeded/C*-*') + glob.glob('/verif/seeded/R*-*')):
    m = json.load(open(os.path.join(d, 'meta.json')))
    sid = os.path.basename(d)
    own = m.get('own_property_result', '')
    own_s = {'caught (VIOLATION)': 'caught', 'MISSED (exit 0)': '**missed**', 'undecided (exit 2)': 'undecided'}.get(own, own)
    if m.get('property', sid.split('-')[0]) in m.get('bounded_only', []) and own_s == 'caught':
        own_s = 'caught (bounded)'
    summ = (m.get('summary') or '').replace('\n', ' ').replace('|', '/')
    summ = summ[:150] + ('...' if len(summ) > 150 else '')
    rows.append(f"| {sid} | {own_s} | {', '.join(m.get('caught_by', []))} | {', '.join(m.get('undecided', []))} | {summ} |")
print('| change | own property | checks reporting a VIOLATION | undecided | what was changed |')
print('|---|---|---|---|---|')
print('\n'.join(rows))
