#!/usr/bin/env python3
"""Copies confirmed seeded changes into /verif/seeded/<id>/ with meta.json (what it breaks, what it
needs, what was run to confirm it, which checks catch it)."""
import json, os, shutil, sys
OUTS = sys.argv[1:]
conf = json.load(open('/tmp/sv/results.json'))
runs = json.load(open('/tmp/sv/seedrun_results.json'))
dst = '/verif/seeded'
for sid, c in sorted(conf.items()):
    if not c.get('confirmed'):
        continue
    d = next((os.path.join(o, sid) for o in OUTS if os.path.exists(os.path.join(o, sid, 'patch.diff'))), None)
    if d is None:
        continue
    t = os.path.join(dst, sid)
    os.makedirs(t, exist_ok=True)
    for f in ('patch.diff', 'demo_test.patch', 'demo.rs'):
        if os.path.exists(os.path.join(d, f)):
            shutil.copy(os.path.join(d, f), os.path.join(t, f))
    m = json.load(open(os.path.join(d, 'meta.json')))
    r = runs.get(sid, {})
    checks = r.get('checks', {})
    meta = {
        'id': sid,
        'property': m.get('property', sid.split('-')[0]),
        'summary': m.get('summary'),
        'needs': m.get('needs'),
        'author': 'independent sub-agent given only the property text and a scratch worktree of /repo',
        'confirmed_by_me': {
            'how': 'tools/confirm_seeds.py in scratch worktree /tmp/sv/wt: (1) cargo test --workspace --offline with patch.diff applied; '
                   '(2) same with demo_test.patch added; (3) demo_test.patch alone on the unchanged tree',
            'suite_with_change': c.get('suite_with_change'),
            'demo_with_change_failed_tests': c.get('demo_with_change', {}).get('failed'),
            'demo_without_change_failed_tests': c.get('demo_without_change', {}).get('failed'),
            'manual': c.get('manual'),
        },
        'checks_run': 'python3 -m vf.check --all with VERIF_REPO pointing at a scratch worktree of /repo HEAD with patch.diff applied (tools/run_seeds.py)',
        'caught_by': sorted(p for p, v in checks.items() if v.get('exit') == 1),
        'undecided': sorted(p for p, v in checks.items() if v.get('exit') == 2),
        'own_property_result': {0: 'MISSED (exit 0)', 1: 'caught (VIOLATION)', 2: 'undecided (exit 2)'}.get(checks.get(m.get('property', sid.split('-')[0]), {}).get('exit'), 'not run'),
        'bounded_only': sorted(set(l.split()[1].split('=')[1] for l in r.get('lines', []) if l.startswith('VIOLATION') and 'obligation=bounded:' in l)),
        'sample_lines': r.get('lines', [])[:4],
    }
    json.dump(meta, open(os.path.join(t, 'meta.json'), 'w'), indent=1)
    print(sid, meta['own_property_result'], 'caught_by=' + ','.join(meta['caught_by']))
