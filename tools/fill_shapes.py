#!/usr/bin/env python3
"""(re)writes the `shape=<sha>` option on every contract that annotates closures (run deliberately on the unchanged tree:
the pin says 'the closure contracts were written for exactly this surrounding text').  usage: fill_shapes.py WORLD [feature..]"""
import json, os, re, subprocess, sys
sys.path.insert(0, '/verif')
from vf.assemble import assemble, World
w = sys.argv[1]
feats = tuple(sys.argv[2:])
outdir, meta = assemble(w, feats)
vc = World(w, feats).vc
todo = {}
for fn in meta['fns']:
    if fn['variant'] != 'main':
        continue
    c = vc.fns.get((fn['mod'], fn['name']))
    if c is None or not c.closures:
        continue
    f, ln = os.path.join('/verif', fn['contract']).rsplit(':', 1)
    todo.setdefault(f, []).append((int(ln), fn['shape'], fn['name']))
for f, items in todo.items():
    L = open(f).read().split('\n')
    for ln, shp, name in items:
        line = re.sub(r'\s+shape=\w+', '', L[ln - 1])
        L[ln - 1] = line.rstrip() + f' shape={shp}'
        print(f'{os.path.basename(f)}:{ln} {name} shape={shp}')
    open(f, 'w').write('\n'.join(L))
