#!/usr/bin/env python3
"""Runs the property checks against each confirmed seeded change in a scratch worktree.
usage: run_seeds.py SEED_OUT_DIR... [ids...]   (results: /tmp/sv/seedrun_results.json)"""
import json, os, re, subprocess, sys
OUTS = [a for a in sys.argv[1:] if os.path.isdir(a)]
TAG = os.environ.get('SEEDRUN_TAG', '')
WT = '/tmp/sv/seedrun' + TAG
RES = '/tmp/sv/seedrun_results' + TAG + '.json'
HERE = os.path.dirname(os.path.dirname(os.path.abspath(__file__)))
env = dict(os.environ, VERIF_VX='/verif/target/release/vx', VERIF_REPO=WT, VERIF_WORK='/tmp/sv/work' + TAG, VERIF_EVIDENCE='/tmp/sv/evidence' + TAG, VERIF_REPLAYS='/tmp/sv/replays' + TAG, VERIF_BOUNDED_IN_ALL='1', VERIF_REPLAY_TARGET='/tmp/sv/rptarget' + TAG)
if not os.path.exists(WT):
    subprocess.run(f'git -C /repo worktree add -q --detach {WT} HEAD', shell=True, check=True)
conf = json.load(open('/tmp/sv/results.json'))
res = json.load(open(RES)) if os.path.exists(RES) else {}
ids = [a for a in sys.argv[1:] if not os.path.isdir(a) and not a.startswith('--')] or sorted(k for k, v in conf.items() if v.get('confirmed'))
ALL = '--all' in sys.argv
for sid in ids:
    if sid.startswith('--') or (sid in res and not os.environ.get('FORCE')):
        continue
    d = next((os.path.join(o, sid) for o in OUTS if os.path.exists(os.path.join(o, sid, 'patch.diff'))), None)
    if d is None:
        continue
    subprocess.run('git checkout -q -- . && git clean -fdq', shell=True, cwd=WT)
    a = subprocess.run(f'git apply {d}/patch.diff', shell=True, cwd=WT, capture_output=True, text=True)
    if a.returncode != 0:
        res[sid] = {'error': 'patch does not apply'}
        continue
    prop = sid.split('-')[0]
    meta = json.load(open(os.path.join(d, 'meta.json')))
    r = {'property': prop, 'checks': {}}
    c = subprocess.run(['python3', '-m', 'vf.check', '--all'], cwd=HERE, env=env, capture_output=True, text=True)
    lines = [l for l in c.stdout.split('\n') if l.startswith(('VIOLATION', 'INCONCLUSIVE', 'KNOWN', 'BOUNDED'))]
    summ = [l for l in c.stdout.split('\n') if l.startswith('SUMMARY')]
    if summ:
        for kv in summ[0].split()[1:]:
            k, v = kv.split('=')
            r['checks'][k] = {'exit': int(v)}
    else:
        r['error'] = c.stdout[-1500:] + c.stderr[-1500:]
    r['lines'] = [l[:400] for l in lines if l.startswith('VIOLATION')][:40] + [l[:300] for l in lines if not l.startswith('VIOLATION')][:6]
    res[sid] = r
    json.dump(res, open(RES, 'w'), indent=1)
    print(sid, 'own=%s' % r['checks'].get(prop, {}).get('exit'), 'caught_by=' + ','.join(p for p, v in r['checks'].items() if v['exit'] == 1), 'inconcl=' + ','.join(p for p, v in r['checks'].items() if v['exit'] == 2), flush=True)
subprocess.run('git checkout -q -- . && git clean -fdq', shell=True, cwd=WT)
