#!/bin/bash
# usage: tools/try_seed.sh <seed dir> <property>...   applies patch.diff to /repo, runs the checks, undoes it
d=$1; shift
# evidence / replays of runs on a changed tree must never overwrite the committed ones
export VERIF_EVIDENCE=/tmp/sv/evidence_try VERIF_REPLAYS=/tmp/sv/replays_try
mkdir -p $VERIF_EVIDENCE $VERIF_REPLAYS
git -C /repo apply $d/patch.diff || exit 1
for p in "$@"; do ./check $p 2>&1 | grep -E "^VIOLATION|^BOUNDED|exit [0-9]$" | cut -c1-260; done
git -C /repo checkout -- .
git -C /repo status --short | grep -v '^??' | head -3
