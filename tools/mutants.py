#!/usr/bin/env python3
"""Contract-strength sweep: single-site mutants of the functions under contract, applied to a scratch worktree of /repo; a
mutant that still compiles is run through every check (verifier only, no witness search).  Survivors (every check exits 0)
are either equivalent mutants or clauses a contract does not pin down - they are listed for inspection.
usage: mutants.py gen > list.json ;  mutants.py run list.json SHARD NSHARDS   (results /tmp/mut/results_<shard>.json)"""
import json, os, re, subprocess, sys, hashlib
sys.path.insert(0, '/verif')
REPO = '/repo'

OPS = [
    (r'(?<![<>=!\-])<=(?!=)', '<'), (r'(?<![<>=!\-])>=(?!=)', '>'),
    (r'(?<![<>=!\-&|])<(?![<=])', '<='), (r'(?<![<>=!\-&|])>(?![>=])', '>='),
    (r'==', '!='), (r'!=', '=='), (r'&&', '||'), (r'\|\|', '&&'),
    (r'(?<![+\w])\+(?![+=])', '-'), (r'(?<![\->\w])-(?![\-=>])', '+'),
    (r'\btrue\b', 'false'), (r'\bfalse\b', 'true'),
    (r'\bSome\((\w+)\)', 'None'),
    (r'\.is_some\(\)', '.is_none()'), (r'\.is_none\(\)', '.is_some()'), (r'\.is_ok\(\)', '.is_err()'), (r'\.is_err\(\)', '.is_ok()'),
    (r'\.is_zero\(\)', '.is_zero() == false'),
    (r'\bOrder::Ascending\b', 'Order::Descending'),
    (r'\bReplyOn::Always\b', 'ReplyOn::Never'),
    (r'\bexclusive\(', 'inclusive('),
    (r'(?<![\w.])(\d+)u64\b', lambda m: str(int(m.group(1)) + 1) + 'u64'),
    (r'(?<![\w.])(\d{1,6})(?![\w.])', lambda m: str(int(m.group(1)) + 1)),
]


def fn_spans():
    """(file, start, end, name) of every function under contract in the contract worlds (main variants)"""
    from vf.assemble import assemble
    out = {}
    for w, feats in (('staking', ()), ('treasury', ()), ('staking_migr', ()), ('proto', ())):
        _, meta = assemble(w, feats, outdir=f'/tmp/mut/asm_{w}')
        for fn in meta['fns']:
            if fn['variant'] == 'main' and not fn['external_body'] and fn['file'].startswith(('contracts/', 'packages/')):
                out[(fn['file'], fn['src_span'][0])] = (fn['file'], fn['src_span'][0], fn['src_span'][1], f'{fn["mod"]}::{fn["name"]}')
    return sorted(out.values())


def gen():
    muts = []
    for f, a, b, name in fn_spans():
        src = open(os.path.join(REPO, f), 'rb').read()
        text = src[a:b].decode()
        # body only (after the first `{`), skip attribute / log lines and comments
        if '{' not in text:
            continue   # trait method declaration without a body
        body0 = text.index('{')
        pos = body0
        for line in text[body0:].split('\n'):
            ls = pos
            pos += len(line) + 1
            st = line.strip()
            if not st or st.startswith('//') or 'add_attribute' in st or 'attr(' in st or st.startswith('#['):
                continue
            code = line.split('//')[0]
            # string literals are not mutated
            masked = re.sub(r'"(?:[^"\\]|\\.)*"', lambda m: ' ' * len(m.group(0)), code)
            for rx, rep in OPS:
                for m in re.finditer(rx, masked):
                    if m.group(0) in ('<', '>', '-', '+') and not (masked[m.start() - 1:m.start()] == ' ' and masked[m.end():m.end() + 1] == ' '):
                        continue   # generics / arrows / unary signs, not binary operators (rustfmt puts blanks around those)
                    new = rep(m) if callable(rep) else rep
                    muts.append({'file': f, 'fn': name, 'off': a + len(text[:ls].encode()) + len(code[:m.start()].encode()),
                                 'old': m.group(0), 'new': new, 'line': code.strip()[:140]})
            if st.endswith('?;') and not st.startswith('let ') and '=' not in st.split('(')[0]:
                muts.append({'file': f, 'fn': name, 'off': a + len(text[:ls].encode()) + len(line[:len(line) - len(line.lstrip())].encode()),
                             'old': st, 'new': '/* ' + st.replace('*/', '') + ' */', 'line': st[:140], 'kind': 'drop-stmt'})
    for i, m in enumerate(muts):
        m['id'] = i
    json.dump(muts, sys.stdout, indent=0)


def run(listf, shard, nshards):
    muts = json.load(open(listf))
    muts = [m for m in muts if m.get('pick')]
    muts = [m for i, m in enumerate(muts) if i % nshards == shard]
    wt = f'/tmp/mut/wt{shard}'
    if not os.path.exists(wt):
        subprocess.run(f'git -C /repo worktree add -q --detach {wt} HEAD', shell=True, check=True)
    resf = f'/tmp/mut/results_{shard}.json'
    res = json.load(open(resf)) if os.path.exists(resf) else {}
    env = dict(os.environ, CARGO_TARGET_DIR=f'/tmp/mut/target{shard}', CARGO_NET_OFFLINE='true', VERIF_REPO=wt,
               VERIF_WORK=f'/tmp/mut/work{shard}', VERIF_EVIDENCE=f'/tmp/mut/ev{shard}', VERIF_REPLAYS=f'/tmp/mut/rp{shard}',
               VERIF_NO_WITNESS_SEARCH='1', VERIF_VX='/verif/target/release/vx')
    for m in muts:
        key = str(m['id'])
        if key in res:
            continue
        subprocess.run('git checkout -q -- . && git clean -fdq', shell=True, cwd=wt)
        path = os.path.join(wt, m['file'])
        src = open(path, 'rb').read()
        old = m['old'].encode()
        if src[m['off']:m['off'] + len(old)] != old:
            res[key] = {'skip': 'offset mismatch'}
            continue
        open(path, 'wb').write(src[:m['off']] + m['new'].encode() + src[m['off'] + len(old):])
        c = subprocess.run('cargo check --workspace --offline -q 2>&1 | tail -3', shell=True, cwd=wt, env=env, capture_output=True, text=True)
        if 'error' in c.stdout:
            res[key] = {'skip': 'does not compile'}
        else:
            p = subprocess.run(['python3', '-m', 'vf.check', '--all'], cwd='/verif', env=env, capture_output=True, text=True)
            summ = [l for l in p.stdout.split('\n') if l.startswith('SUMMARY')]
            ex = dict(kv.split('=') for kv in summ[0].split()[1:]) if summ else {}
            res[key] = {'exits': ex, 'caught': sorted(k for k, v in ex.items() if v == '1'), 'undecided': sorted(k for k, v in ex.items() if v == '2'),
                        'survived': bool(ex) and all(v == '0' for v in ex.values())}
        res[key].update({k: m[k] for k in ('file', 'fn', 'old', 'new', 'line')})
        json.dump(res, open(resf, 'w'), indent=0)
        print(key, m['fn'], repr(m['old']), '->', repr(m['new']), res[key].get('skip') or ('SURVIVED' if res[key]['survived'] else 'caught ' + ','.join(res[key]['caught']) + ' undecided ' + ','.join(res[key]['undecided'])), flush=True)
    subprocess.run('git checkout -q -- . && git clean -fdq', shell=True, cwd=wt)


if __name__ == '__main__':
    os.makedirs('/tmp/mut', exist_ok=True)
    if sys.argv[1] == 'gen':
        gen()
    else:
        run(sys.argv[2], int(sys.argv[3]), int(sys.argv[4]))
