#!/bin/bash
# Re-runs every claimed check on the current /repo and rewrites evidence/<id>.json.
cd "$(dirname "$0")/.."
rc=0
for id in $(python3 -c "import json; print(' '.join(c['property_id'] for c in json.load(open('MANIFEST.json'))['checks']))"); do
  ./check $id --tier quick | tail -1 || rc=1
done
python3-vt - <<'PY'
import json, jsonschema, glob
sch = json.load(open('/root/.vp/EVIDENCE.schema.json'))
for f in sorted(glob.glob('/verif/evidence/*.json')):
    d = json.load(open(f))
    jsonschema.validate(d, sch)
    assert d['level'] == 'proof' and d['coverage']['obligations'] == d['coverage']['discharged'] > 0, f
print('all evidence files valid')
PY
exit $rc
