#!/usr/bin/env python3
"""Runs every check against behaviour-preserving edits (false-alarm hunt).
usage: run_benign.py DIR...   each DIR/<id>/patch.diff (or DIR/<id>.diff); results /tmp/sv/benign_results.json"""
import json, os, subprocess, sys, glob
TAG = os.environ.get('BENIGN_TAG', '')
WT = '/tmp/sv/benignrun' + TAG
HERE = os.path.dirname(os.path.dirname(os.path.abspath(__file__)))
env = dict(os.environ, VERIF_VX='/verif/target/release/vx', VERIF_REPO=WT, VERIF_WORK='/tmp/sv/work_benign' + TAG, VERIF_EVIDENCE='/tmp/sv/evidence_benign' + TAG,
           VERIF_REPLAYS='/tmp/sv/replays_benign' + TAG, VERIF_BOUNDED_IN_ALL='1', VERIF_REPLAY_TARGET='/tmp/sv/rptarget_benign' + TAG)
subprocess.run(['git', '-C', '/repo', 'worktree', 'remove', '--force', WT], capture_output=True)
subprocess.run(f'git -C /repo worktree add -q --detach {WT} HEAD', shell=True, check=True)
patches = []
for d in sys.argv[1:]:
    patches += sorted(glob.glob(os.path.join(d, '*', 'patch.diff'))) + sorted(glob.glob(os.path.join(d, '*.diff')))
res = {}
try:
    for p in patches:
        pid = os.path.basename(os.path.dirname(p)) if p.endswith('patch.diff') else os.path.basename(p)[:-5]
        subprocess.run('git checkout -q -- . && git clean -fdq', shell=True, cwd=WT)
        a = subprocess.run(['git', 'apply', p], cwd=WT, capture_output=True, text=True)
        if a.returncode:
            print(pid, 'patch does not apply'); continue
        c = subprocess.run(['python3', '-m', 'vf.check', '--all'], cwd=HERE, env=env, capture_output=True, text=True)
        summ = [l for l in c.stdout.split('\n') if l.startswith('SUMMARY')]
        ex = dict(kv.split('=') for kv in summ[0].split()[1:]) if summ else {}
        viol = [l[:400] for l in c.stdout.split('\n') if l.startswith('VIOLATION')]
        inc = sorted(set(l.split(':')[0].split('=')[1] for l in c.stdout.split('\n') if l.startswith('INCONCLUSIVE')))
        res[pid] = {'exit': ex, 'violations': viol, 'undecided': [k for k, v in ex.items() if v == '2'], 'first_inconclusive': [l[:300] for l in c.stdout.split('\n') if l.startswith('INCONCLUSIVE')][:3]}
        json.dump(res, open('/tmp/sv/benign_results' + TAG + '.json', 'w'), indent=1)
        print(pid, 'ALARM ' + ','.join(k for k, v in ex.items() if v == '1') if viol else 'ok', 'undecided=' + ','.join(res[pid]['undecided']), flush=True)
finally:
    subprocess.run(['git', '-C', '/repo', 'worktree', 'remove', '--force', WT], capture_output=True)
